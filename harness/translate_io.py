"""Fail-closed translator  src/hpotk/util/_io.py  ->  Gallina  (second tie for C16, besides the behavioural one).

The decision table of the two handle helpers and the two string tests are small enough to be read off
the Python AST.  The translator accepts exactly the statement shapes listed below and raises
TranslateError on anything else (an unknown call, an extra keyword, a changed literal, a reordered or
missing branch), so a successful translation means the emitted definitions say what the source says:

  looks_like_url / looks_gzipped :  `return file.startswith(L) [or file.startswith(L')]*` / `return file.endswith(L)`
  open_text_io_handle_for_reading / ..._for_writing :
      assignments to `logger` / `encoding`, `logger.debug(...)` statements (ignored), then one if / elif chain over
          isinstance(fh, str) | isinstance(fh, (io.BufferedIOBase, io.RawIOBase)) | isinstance(fh, io.TextIOBase) | else: raise ValueError
      whose branches return
          gzip.open(<binary handle or fh>, mode='rt'|'wt', [newline=''|None], [encoding=encoding])
          io.TextIOWrapper(<handle or fh>, [encoding=encoding], [newline=''|None])
          open(fh, 'w', [encoding=encoding], [newline=''|None])
          fh
      where, in the str branch for reading, the binary handle comes from `open(fh, 'rb')` or `urlopen(fh, ...)`
      selected by `looks_like_url(fh)`, and the gzip / plain alternative is selected by `looks_gzipped(fh)`.

The emitted file defines  looks_like_url_src, looks_gzipped_src, open_for_reading_src, open_for_writing_src
and proves them equal to the hand-written model (Io.Model) - by computation, for every argument."""
import ast


class TranslateError(Exception):
    pass


def fail(node, msg):
    raise TranslateError(f'line {getattr(node, "lineno", "?")}: {msg}')


def cstr(s):
    if not all(32 <= ord(c) < 127 and c != '"' for c in s):
        raise TranslateError(f'literal {s!r} is not printable ASCII')
    return '"' + s + '"'


def is_name(n, name):
    return isinstance(n, ast.Name) and n.id == name


def is_attr(n, mod, attr):
    return isinstance(n, ast.Attribute) and n.attr == attr and is_name(n.value, mod)


def const(n):
    if not isinstance(n, ast.Constant):
        fail(n, 'expected a literal')
    return n.value


def func(tree, name):
    for n in tree.body:
        if isinstance(n, ast.FunctionDef) and n.name == name:
            return n
    raise TranslateError(f'function {name} not found')


def body_without_docstring(fn):
    b = list(fn.body)
    if b and isinstance(b[0], ast.Expr) and isinstance(b[0].value, ast.Constant) and isinstance(b[0].value.value, str):
        b = b[1:]
    return b


# ---- the two string tests ------------------------------------------------------------------
def string_test(fn):
    b = body_without_docstring(fn)
    if len(b) != 1 or not isinstance(b[0], ast.Return):
        fail(fn, f'{fn.name}: expected a single return statement')
    arg = fn.args.args[0].arg

    def one(e):
        if (isinstance(e, ast.Call) and isinstance(e.func, ast.Attribute) and is_name(e.func.value, arg)
                and e.func.attr in ('startswith', 'endswith') and len(e.args) == 1 and not e.keywords):
            lit = const(e.args[0])
            if not isinstance(lit, str):
                fail(e, 'prefix / suffix must be a str literal')
            return ('sprefixb' if e.func.attr == 'startswith' else 'ssuffixb') + ' ' + cstr(lit) + ' f'
        fail(e, f'{fn.name}: unsupported test')
    e = b[0].value
    if isinstance(e, ast.BoolOp) and isinstance(e.op, ast.Or):
        return ' || '.join(one(v) for v in e.values)
    return one(e)


# ---- the text layer of a returned handle ----------------------------------------------------
def layer(call, skip_pos):
    """keywords of gzip.open / io.TextIOWrapper / open  ->  {| l_enc; l_nl |}"""
    enc, nl = 'EncLocale', 'NlUniversal'
    for kw in call.keywords:
        if kw.arg == 'encoding':
            if not is_name(kw.value, 'encoding'):
                fail(call, 'encoding= must pass the `encoding` variable')
            enc = 'EncParam'
        elif kw.arg == 'newline':
            v = const(kw.value)
            if v == '':
                nl = 'NlRaw'
            elif v is None:
                nl = 'NlUniversal'
            else:
                fail(call, f'newline={v!r} is not modelled')
        elif kw.arg == 'mode':
            pass
        else:
            fail(call, f'unexpected keyword {kw.arg}')
    if len(call.args) > skip_pos:
        fail(call, 'unexpected positional arguments')
    return '{| l_enc := %s; l_nl := %s |}' % (enc, nl)


def mode_of(call, pos):
    for kw in call.keywords:
        if kw.arg == 'mode':
            return const(kw.value)
    if len(call.args) > pos:
        return const(call.args[pos])
    return None


def returned(e, reading, source_names):
    """a return expression -> ('gz'|'plain'|'wrap'|'pass', layer)"""
    if is_name(e, 'fh'):
        return ('pass', None)
    if not isinstance(e, ast.Call):
        fail(e, 'unsupported return expression')
    if is_attr(e.func, 'gzip', 'open'):
        if not e.args or not any(is_name(e.args[0], n) for n in source_names):
            fail(e, 'gzip.open must be applied to the handle / name')
        if mode_of(e, 1) != ('rt' if reading else 'wt'):
            fail(e, 'gzip.open mode')
        return ('gz', layer(e, 1 if any(k.arg == 'mode' for k in e.keywords) else 2))
    if is_attr(e.func, 'io', 'TextIOWrapper'):
        if len(e.args) != 1 or not any(is_name(e.args[0], n) for n in source_names):
            fail(e, 'io.TextIOWrapper must be applied to the handle / stream')
        return ('wrap', layer(e, 1))
    if is_name(e.func, 'open') and not reading:
        if not e.args or not is_name(e.args[0], 'fh') or mode_of(e, 1) != 'w':
            fail(e, "open(fh, 'w', ...) expected")
        return ('plain', layer(e, 1 if any(k.arg == 'mode' for k in e.keywords) else 2))
    fail(e, 'unsupported call in a return')


def strip_noise(stmts):
    """drop logger.debug(...) statements"""
    out = []
    for s in stmts:
        if (isinstance(s, ast.Expr) and isinstance(s.value, ast.Call) and isinstance(s.value.func, ast.Attribute)
                and is_name(s.value.func.value, 'logger') and s.value.func.attr == 'debug'):
            continue
        out.append(s)
    return out


def isinstance_kind(test):
    if not (isinstance(test, ast.Call) and is_name(test.func, 'isinstance') and len(test.args) == 2 and is_name(test.args[0], 'fh')):
        fail(test, 'expected isinstance(fh, ...)')
    c = test.args[1]
    if is_name(c, 'str'):
        return 'AStr'
    if isinstance(c, ast.Tuple) and len(c.elts) == 2 and is_attr(c.elts[0], 'io', 'BufferedIOBase') and is_attr(c.elts[1], 'io', 'RawIOBase'):
        return 'ABinaryStream'
    if is_attr(c, 'io', 'TextIOBase'):
        return 'ATextStream'
    fail(test, 'unknown class in isinstance')


def gz_split(stmts, reading, source_names):
    """`if looks_gzipped(fh): return A else: return B`  ->  (A, B)"""
    stmts = strip_noise(stmts)
    if len(stmts) != 1 or not isinstance(stmts[0], ast.If):
        fail(stmts[0] if stmts else None, 'expected `if looks_gzipped(fh): ... else: ...`')
    i = stmts[0]
    t = i.test
    if not (isinstance(t, ast.Call) and is_name(t.func, 'looks_gzipped') and len(t.args) == 1 and is_name(t.args[0], 'fh')):
        fail(t, 'expected looks_gzipped(fh)')
    a, b = strip_noise(i.body), strip_noise(i.orelse)
    if len(a) != 1 or len(b) != 1 or not isinstance(a[0], ast.Return) or not isinstance(b[0], ast.Return):
        fail(i, 'both alternatives must be a single return')
    return returned(a[0].value, reading, source_names), returned(b[0].value, reading, source_names)


def str_branch_reading(stmts):
    stmts = strip_noise(stmts)
    if len(stmts) != 2 or not isinstance(stmts[0], ast.If):
        fail(stmts[0] if stmts else None, 'str branch: expected the URL / local alternative followed by the gzip / plain alternative')
    u = stmts[0]
    t = u.test
    if not (isinstance(t, ast.Call) and is_name(t.func, 'looks_like_url') and len(t.args) == 1 and is_name(t.args[0], 'fh')):
        fail(t, 'expected looks_like_url(fh)')
    # URL alternative: ... handle = urlopen(fh, ...)   (validation of the timeout may raise ValueError: not a decision about the kind)
    url_assign = [s for s in strip_noise(u.body) if isinstance(s, ast.Assign) and any(is_name(x, 'handle') for x in s.targets)]
    if len(url_assign) != 1 or not (isinstance(url_assign[0].value, ast.Call) and is_name(url_assign[0].value.func, 'urlopen')
                                    and url_assign[0].value.args and is_name(url_assign[0].value.args[0], 'fh')):
        fail(u, 'URL alternative must assign handle = urlopen(fh, ...)')
    loc = strip_noise(u.orelse)
    if len(loc) != 1 or not (isinstance(loc[0], ast.Assign) and is_name(loc[0].targets[0], 'handle') and isinstance(loc[0].value, ast.Call)
                             and is_name(loc[0].value.func, 'open') and len(loc[0].value.args) == 2 and is_name(loc[0].value.args[0], 'fh')
                             and const(loc[0].value.args[1]) == 'rb' and not loc[0].value.keywords):
        fail(u, "local alternative must be handle = open(fh, 'rb')")
    return gz_split(stmts[1:], True, ['handle'])


def helper(fn, reading):
    b = strip_noise(body_without_docstring(fn))
    # leading assignments to logger / encoding
    while b and isinstance(b[0], ast.Assign) and len(b[0].targets) == 1 and isinstance(b[0].targets[0], ast.Name) and b[0].targets[0].id in ('logger', 'encoding'):
        b = b[1:]
    if len(b) != 1 or not isinstance(b[0], ast.If):
        fail(fn, f'{fn.name}: expected one if / elif chain after the preamble')
    table = {}
    node = b[0]
    while True:
        kind = isinstance_kind(node.test)
        if kind in table:
            fail(node, f'duplicate branch for {kind}')
        if kind == 'AStr':
            table[kind] = str_branch_reading(node.body) if reading else gz_split(node.body, False, ['fh'])
        else:
            body = strip_noise(node.body)
            if len(body) != 1 or not isinstance(body[0], ast.Return):
                fail(node, 'stream branch must be a single return')
            r = returned(body[0].value, reading, ['fh'])
            if kind == 'ABinaryStream' and r[0] != 'wrap':
                fail(node, 'binary stream must be wrapped by io.TextIOWrapper')
            if kind == 'ATextStream' and r[0] != 'pass':
                fail(node, 'text stream must be returned as it is')
            table[kind] = r
        if len(node.orelse) == 1 and isinstance(node.orelse[0], ast.If):
            node = node.orelse[0]
            continue
        other = strip_noise(node.orelse)
        if not (len(other) == 1 and isinstance(other[0], ast.Raise) and isinstance(other[0].exc, ast.Call) and is_name(other[0].exc.func, 'ValueError')):
            fail(node, 'the final else must raise ValueError')
        break
    if set(table) != {'AStr', 'ABinaryStream', 'ATextStream'}:
        fail(fn, f'{fn.name}: branches {sorted(table)}')
    return table


def translate(path):
    tree = ast.parse(open(path, encoding='utf-8').read())
    url = string_test(func(tree, 'looks_like_url'))
    gz = string_test(func(tree, 'looks_gzipped'))
    rd = helper(func(tree, 'open_text_io_handle_for_reading'), True)
    wr = helper(func(tree, 'open_text_io_handle_for_writing'), False)

    def rplan(r, gzflag):
        kind, lay = r
        if kind == 'gz':
            return f'Ok (ROpen (looks_like_url_src f) true {lay})'
        if kind == 'wrap':
            return f'Ok (ROpen (looks_like_url_src f) false {lay})'
        fail(None, 'str branch for reading must decode the handle')

    def wplan(r):
        kind, lay = r
        if kind == 'gz':
            return f'Ok (WOpen true {lay})'
        if kind == 'plain':
            return f'Ok (WOpen false {lay})'
        fail(None, 'str branch for writing must open the file')
    ra, rb = rd['AStr']
    wa, wb = wr['AStr']
    if ra[0] != 'gz' or rb[0] != 'wrap' or wa[0] != 'gz' or wb[0] != 'plain':
        fail(None, 'the .gz alternative must go through gzip.open and the other one must not')
    out = f'''(* GENERATED by harness/translate_io.py from {path} - do not edit *)
From Coq Require Import String Ascii List Bool.
From Hpotk Require Import Base.Result Base.Str Io.Model.
Open Scope string_scope.

Definition looks_like_url_src (f : string) : bool := {url}.
Definition looks_gzipped_src (f : string) : bool := {gz}.

Definition open_for_reading_src (a : arg) : res rplan :=
  match a with
  | AStr f => if looks_gzipped_src f then {rplan(ra, True)} else {rplan(rb, False)}
  | ABinaryStream => Ok (RWrap {rd['ABinaryStream'][1]})
  | ATextStream => Ok RPass
  | AOther => Err ValueError
  end.

Definition open_for_writing_src (a : arg) : res wplan :=
  match a with
  | AStr f => if looks_gzipped_src f then {wplan(wa)} else {wplan(wb)}
  | ABinaryStream => Ok (WWrap {wr['ABinaryStream'][1]})
  | ATextStream => Ok WPass
  | AOther => Err ValueError
  end.

(* what the source says IS the model the C16 theorems are about *)
Lemma looks_like_url_src_ok : forall f, looks_like_url_src f = looks_like_url f.
Proof. intro f. reflexivity. Qed.
Lemma looks_gzipped_src_ok : forall f, looks_gzipped_src f = looks_gzipped f.
Proof. intro f. reflexivity. Qed.
Lemma open_for_reading_src_ok : forall a, open_for_reading_src a = open_for_reading a.
Proof. intros [f| | |]; first [reflexivity | unfold open_for_reading_src, open_for_reading; rewrite looks_gzipped_src_ok, looks_like_url_src_ok; destruct (looks_gzipped f); reflexivity]. Qed.
Lemma open_for_writing_src_ok : forall a, open_for_writing_src a = open_for_writing a.
Proof. intros [f| | |]; first [reflexivity | unfold open_for_writing_src, open_for_writing; rewrite looks_gzipped_src_ok; destruct (looks_gzipped f); reflexivity]. Qed.
'''
    return out


if __name__ == '__main__':
    import sys
    print(translate(sys.argv[1]))
