"""C16 - readers and writers treat paths, gzip paths and open streams alike."""
import json

from common import cstr, cbool, clist, log, cexn, run_coqc, REPO
import translate_io

TRUSTED_BASE = [
    'PARTIAL BY NATURE: which Python object is a text / binary stream (isinstance against the io ABCs) and the codecs (UTF-8, gzip) are runtime behaviour; '
    'the theorems are about the decision table and hold for any codecs satisfying decode(encode c) = c and gunzip(gzip b) = b (hypotheses)',
    'the full product {11 source kinds} x {4 readers} x {ASCII, non-ASCII} x {LF, CR LF, CR} and {4 target kinds} x {2 writers}, and 7 non-stream argument types, is EXECUTED on the '
    'implementation on every run and compared with the plain-path result (exhaustive for the property\'s quantifier); the products run a second time in a process whose locale prefers ASCII',
    'the text layer (encoding selection, newline mode) of each handle the helper creates is observed behaviourally (handle.encoding under the default and an explicit latin-1 request; '
    'text delivered / emitted for a probe) and compared with the model; the write-side theorem is stated for os.linesep = LF (this platform); where os.linesep is CR LF the plain-path and '
    '.gz-path writers differ (Io.Proofs.write_newline_platform_caveat) - not executable here',
    'a caller\'s own text stream is passed through untouched: its decoding and newline mode are the caller\'s (the exploration opens text streams the default way)',
    'URL sources are not opened (no network); looks_like_url is compared as a string function',
    'TRANSLATOR (harness/translate_io.py, fail-closed Python-ast -> Gallina, ~250 lines): on every run the two helpers and the two string tests are translated from '
    'src/hpotk/util/_io.py and Coq proves the translated definitions equal to Io.Model for every argument (work/C16/IoGen.v); trusted: the translator\'s reading of '
    'isinstance classes, of the keywords encoding= / newline= / mode= and of the call names gzip.open, io.TextIOWrapper, open, urlopen',
]
ASSUMPTIONS = ['text content is UTF-8 encodable; a ".gz" name holds gzip data and other names hold plain data']
THEOREM = 'C16_read_uniform / C16_read_uniform_all_kinds / C16_line_endings / C16_layers / C16_write_uniform / C16_suffix_and_url_tests'

HEADER = '''From Coq Require Import String List.
From Hpotk Require Import Base.Result Base.Emit Io.Model Corr.C16.
Import ListNotations.
Open Scope string_scope.
Open Scope list_scope.'''

OBS = {'open-plain': 'OOpenPlain', 'open-gz': 'OOpenGz', 'wrap': 'OWrap', 'pass': 'OPass'}


def cobs(o):
    if o in OBS:
        return OBS[o]
    if o.startswith('raise:'):
        return f'(ORaise {cexn(o[6:])})'
    return '(ORaise OtherError)'        # "returned" for a non-stream argument, or an unknown handle: never equals the model


def carg(a):
    if a[0] == 'str':
        return f'(AStr {cstr(a[1])})'
    return {'text': 'ATextStream', 'binary': 'ABinaryStream', 'other': 'AOther'}[a[0]]


def strings(rng):
    base = ['', '.gz', 'gz', 'a.gz', 'a.GZ', 'a.gz ', 'a.gzz', 'http://x', 'https://x.gz', 'http:/x', 'HTTP://x', 'ftp://x', 'xhttp://', 'https://', 'http://',
            'a/b/c.json.gz', 'é.gz', 'x.g', '.g', 'z', 'https:/', 'http//', 'file.gz.', '..gz', 'run#2.csv.gz', 'a?b.gz', 'x.gz?raw=true', 'v;1.gz', 'x.gz#f']
    for _ in range(150):
        n = rng.randint(0, 9)
        base.append(''.join(rng.choice('.gzhtps:/aé#?;') for _ in range(n)))
    return base


def translation_tie(chk):
    """second tie: the decision table is TRANSLATED from the source and proved equal to the model.
    Returns None when the tie holds, else a description of what no longer checks."""
    src = REPO / 'src' / 'hpotk' / 'util' / '_io.py'
    try:
        text = translate_io.translate(str(src))
    except translate_io.TranslateError as e:
        return f'translator rejects {src}: {e} (the source no longer has the shape the model was read from)'
    except Exception as e:      # syntax error etc.
        return f'translator failed on {src}: {type(e).__name__}: {e}'
    v = chk.work / 'IoGen.v'
    v.write_text(text)
    r = run_coqc(v.name, cwd=chk.work)
    chk.extra['translated_definitions'] = [l.strip() for l in text.splitlines() if l.startswith('Definition') or l.strip().startswith('| ')]
    if r.returncode != 0:
        return ('the definitions translated from the source are NOT equal to the model (Io.Model) the theorems are about: '
                + (r.stdout + r.stderr).strip()[-500:])
    chk.count('translated-and-proved-equal')
    return None


def run(chk):
    strs = strings(chk.rng)
    broken_tie = translation_tie(chk)
    obs = chk.run_impl('C16', {'workdir': str(chk.work), 'strings': strs})
    # the same products in a process whose locale prefers a non-UTF-8 encoding ("configurations")
    cfg = chk.run_impl('C16', {'workdir': str(chk.work), 'strings': [], 'config': 'LC_ALL=C, no UTF-8 mode'},
                       extra_env={'LC_ALL': 'C', 'LANG': 'C', 'PYTHONCOERCECLOCALE': '0', 'PYTHONUTF8': '0'})
    chk.extra['second_configuration'] = {'env': cfg['config'], 'preferred_encoding': cfg['preferred_encoding']}
    for r in cfg['readers'] + cfg['writers']:
        r['config'] = cfg['config']
    obs['readers'] += cfg['readers']
    obs['writers'] += cfg['writers']
    terms, meta = [], []
    for d in obs['decisions']:
        terms.append(f'({"IORead" if d["mode"] == "read" else "IOWrite"} {carg(d["arg"])} {cobs(d["obs"])})')
        meta.append(('decision', d))
        lay = d.get('layer')
        if lay is not None:
            chk.count('layer:' + d['mode'])
            if 'err' in lay:
                terms.append(f'(IORLayer AOther true "" "")')         # could not be observed: never equals the model
            elif d['mode'] == 'read':
                terms.append(f'(IORLayer {carg(d["arg"])} {cbool(lay["enc_follows"])} {cstr(lay["raw"])} {cstr(lay["got"])})')
            else:
                terms.append(f'(IOWLayer {carg(d["arg"])} {cbool(lay["enc_follows"])} {cstr(lay["linesep"])} {cstr(lay["txt"])} {cstr(lay["got"])})')
            meta.append(('layer', d))
    for s, b in obs['url']:
        terms.append(f'(IOUrl {cstr(s)} {cbool(b)})')
        meta.append(('looks_like_url', [s, b]))
    for s, b in obs['gz']:
        terms.append(f'(IOGz {cstr(s)} {cbool(b)})')
        meta.append(('looks_gzipped', [s, b]))
    failing = chk.coq_failing(HEADER, terms, 'check_iocase', shard=400)
    problems = []
    for i in failing:
        problems.append(('C16:' + meta[i][0] + ':' + (meta[i][1]['mode'] + ':' + meta[i][1]['arg'][0] + (':' + meta[i][1]['obs'] if meta[i][0] == 'layer' else '')
                                                      if meta[i][0] in ('decision', 'layer') else 'string'), meta[i][1]))
    for r in obs['readers']:
        chk.count('reader:' + r['reader'])
        chk.count('source:' + r['kind'].split(':')[0])
        if r['kind'].startswith('other:'):
            if r['err'] != 'ValueError':
                problems.append(('C16:reader:other-argument', r))
        elif not r.get('same_as_path'):
            problems.append(('C16:reader:' + ('stream' if 'path' not in r['kind'] else r['kind'].replace('-multimember', '')) + (':non-utf8-text' if 'utf16' in r['kind'] else '')
                             + (':' + r['eol'] if r.get('eol', 'lf') != 'lf' else '') + (':bom' if r.get('non_ascii') == 'bom' else ':big' if r.get('non_ascii') == 'big' else '') + (':second-configuration' if r.get('config') else ''), r))
    for w in obs['writers']:
        chk.count('writer:' + w['writer'])
        if w['kind'].startswith('other:'):
            if w['err'] != 'ValueError':
                problems.append(('C16:writer:other-argument', w))
        elif not w.get('same_as_path'):
            problems.append(('C16:writer:' + ('stream' if 'stream' in w['kind'] else w['kind']) + (':second-configuration' if w.get('config') else ''), w))
    chk.evaluations = len(terms) + len(obs['readers']) + len(obs['writers'])
    chk.traces = len(obs['readers']) + len(obs['writers'])
    for j, (kind, m) in enumerate(meta):
        chk.note_case({'kind': kind, 'case': m}, nontrivial=True, sample_every=60)
    for r in obs['readers'] + obs['writers']:
        chk.note_case(r, nontrivial=True)
    chk.exhaustive = True
    chk.extra['reader_runs'] = len(obs['readers'])
    chk.extra['writer_runs'] = len(obs['writers'])
    chk.rule = ('EXHAUSTIVE product: readers {load_minimal_ontology, load_ontology, SimpleHpoaDiseaseLoader.load, SimilarityContainer.from_csv} x sources {path, .gz path (single- and multi-member gzip), open text '
                'file (UTF-8 and UTF-16), open binary file, StringIO, BytesIO, gzip text stream, gzip binary stream} x {ASCII, non-ASCII content} x {LF, CR LF, CR line endings} + content starting with a UTF-8 byte order mark + a 250-500 KiB document full of multi-byte characters: result (or raised exception class) equal to the plain-path result; writers '
                '{SimilarityContainer.to_csv, AnnotationIcContainer.to_csv} x targets {path, .gz path, open text file stream, open binary file stream}: content (timestamp removed) '
                'equal; both products again in a second process configuration (LC_ALL=C without UTF-8 mode: the locale prefers ASCII); 7 non-stream argument types must raise ValueError; the decision taken by '
                'the helper for 13 file names and 13 stream objects, the text layer of every handle it creates (its encoding follows the `encoding` parameter - default and latin-1 - and the text delivered / '
                'emitted for a probe mixing LF, CR LF and CR) and looks_like_url / looks_gzipped on 170 strings are compared with the model inside Coq')
    if broken_tie:
        # the translated definitions no longer match the model.  The behavioural exploration above is the search
        # for a failing input: if it found one, that concrete case is the replay; if not, say so.
        concrete = [p for p in problems if p[0].startswith('C16:reader') or p[0].startswith('C16:writer')]
        chk.report_violation('C16:translation', {'no_failing_input': not concrete, 'broken': ['Lemma open_for_reading_src_ok / open_for_writing_src_ok / looks_*_src_ok (work/C16/IoGen.v)'],
                                                 'detail': broken_tie, 'theorem': THEOREM,
                                                 'failing_inputs_found_by_the_exploration': [p[1] for p in concrete[:3]]},
                             what='C16:translation: ' + broken_tie[:300])
    seen = {}
    # property-level first: the reader / writer products and the ValueError for other arguments are the property itself;
    # which wrapper class a handle has and what its codec is called (decision / layer observations) are the model's
    problems.sort(key=lambda p: p[0].startswith('C16:decision') or p[0].startswith('C16:layer'))
    for sig, detail in problems:
        if sig in seen:
            seen[sig] += 1
            continue
        seen[sig] = 1
        if sig.startswith('C16:decision') or sig.startswith('C16:layer'):
            if sig.startswith('C16:decision') and detail.get('arg', [''])[0] == 'other':
                pass            # an unsupported argument that is not rejected with ValueError IS the property
            else:
                chk.correspondence_break(sig, {'case': detail, 'theorem': THEOREM, 'broken': ['Corr.C16.check_iocase: decision table / text layer of the helper vs Io.Model']},
                                         what=f'{sig}: {json.dumps(detail)[:400]}')
                continue
        chk.report_violation(sig, {'case': detail, 'theorem': THEOREM, 'all_problems': len(problems),
                                   'replay_note': 'the product is exhaustive and deterministic: re-running the check replays it'},
                             what=f'{sig}: {json.dumps(detail)[:400]}')


def replay(chk, path):
    run(chk)
