"""Observation of calculate_ic_for_annotated_items (C09)."""
import warnings

warnings.simplefilter('ignore')

from hpotk.model import TermId, MinimalTerm, Identified, ObservableFeature  # noqa: E402
from hpotk.ontology import create_minimal_ontology  # noqa: E402
from hpotk.annotations import AnnotatedItem, AnnotatedItemContainer  # noqa: E402
from hpotk.algorithm.similarity import calculate_ic_for_annotated_items  # noqa: E402

from impl_graph import FACTORIES, exn_name, warm_up  # noqa: E402


class Ann(Identified, ObservableFeature):
    def __init__(self, tid, present):
        self._tid, self._p = tid, present

    @property
    def identifier(self):
        return self._tid

    @property
    def is_present(self):
        return self._p


class Item(AnnotatedItem):
    def __init__(self, anns):
        self._a = anns

    @property
    def annotations(self):
        return self._a


class Corpus(AnnotatedItemContainer):
    def __init__(self, items):
        self._items = items

    def __iter__(self):
        return iter(self._items)

    def __len__(self):
        return len(self._items)

    @property
    def version(self):
        return 'c1'


def observe_case(case):
    edges = [(TermId.from_curie(s), TermId.from_curie(o)) for s, o in case['edges']]
    g = FACTORIES[case['factory']]().create_graph(edges)
    terms = [MinimalTerm.create_minimal_term(t, 'n', [], False) for t in case['terms']]
    hpo = create_minimal_ontology(g, terms, 'v1')
    if len(case['edges']) % 2 == 0:
        warm_up(hpo, list(g), len(case['items']))
    corpus = Corpus([Item([Ann(TermId.from_curie(k), p) for k, p in item]) for item in case['items']])
    kw = {}
    if case['base'] is not None:
        kw['base'] = case['base']
    if case['module'] is not None:
        kw['module_root'] = TermId.from_curie(case['module'])
    try:
        ic = calculate_ic_for_annotated_items(corpus, hpo, use_pseudocount=case['pseudo'], **kw)
    except Exception as e:
        return {'err': exn_name(e)}
    keys = sorted(k.value for k in ic.keys())
    vals = []
    for q in case['queries']:
        t = TermId.from_curie(q)
        vals.append(float(ic[t]).hex() if t in ic else None)
    return {'ok': {'keys': keys, 'values': vals, 'root': g.root.value, 'n': len(ic)}}


def observe(payload):
    res = []
    for case in payload['cases']:
        try:
            res.append(observe_case(case))
        except Exception as e:
            res.append({'crash': exn_name(e) + ': ' + str(e)[:300]})
    return {'cases': res}
