"""Rendering of graph cases (edge list + factory + API calls + implementation answers) into Coq terms
for Corr/Graph.v, and the shared evaluate/shrink/report logic of C01, C02, C03, C14."""
import json

from common import cstr, cnat, cz, cbool, clist, ctuple, cexn, log

HEADER = '''From Coq Require Import String List ZArith.
From Hpotk Require Import Base.Result Base.Emit TermId.Model Graph.Model Corr.Graph.
Import ListNotations.
Open Scope string_scope.
Open Scope list_scope.
Definition ktable (tbl : list string) : list key := map (fun s => match from_curie s with Ok t => tkey t | Err _ => key0 end) tbl.
Definition kk (ks : list key) (i : nat) : key := nth i ks key0.'''

FACT = {'idx': 'FIdx', 'inc': 'FInc', 'bld': 'FBld'}
Q = {'P': 'QParents', 'C': 'QChildren', 'A': 'QAncestors', 'D': 'QDescendants'}


class Table:
    def __init__(self):
        self.idx = {}
        self.items = []

    def s(self, x):
        if x not in self.idx:
            self.idx[x] = len(self.items)
            self.items.append(x)
        return f'(s {self.idx[x]})'

    def k(self, x):
        self.s(x)
        return f'(k {self.idx[x]})'


def carg(t, spec):
    kind, v = spec
    if kind == 'str':
        return f'(AStr {t.s(v)})'
    if kind in ('tid', 'utid'):
        return f'(ATid {t.k(v)})'
    if kind in ('ident', 'uident', 'oterm', 'cterm'):
        return f'(AIdent {t.k(v)})'
    return 'AOther'


def cint(spec):
    return cz(int(spec[1]))


def cr(r, f):
    if 'ok' in r:
        return f'(Ok {f(r["ok"])})'
    return f'(Err {cexn(r["err"])})'


def render_call(t, c, r):
    k = c[0]
    if k in ('query', 'query1'):
        return f'(CQuery {Q[c[1]]} {carg(t, c[2])} {cbool(c[3])}, RKeys {cr(r, lambda l: clist([t.s(x) for x in l]))})'
    if k == 'pred':
        return f'(CPred {Q[c[1]]} {carg(t, c[2])} {carg(t, c[3])}, RBool {cr(r, cbool)})'
    if k == 'leaf':
        return f'(CLeaf {carg(t, c[1])}, RBool {cr(r, cbool)})'
    if k == 'contains':
        return f'(CContains {t.k(c[1])}, RBool {cr(r, cbool)})'
    if k == 'nodes':
        return f'(CNodes, RKeys {cr(r, lambda l: clist([t.s(x) for x in l]))})'
    if k == 'root':
        return f'(CRoot, RKey {cr(r, t.s)})'
    if k == 'node_to_idx':
        if 'err' in r:
            return f'(CNodeToIdx {t.k(c[1])}, RUnsupported)'
        return f'(CNodeToIdx {t.k(c[1])}, ROptNat {"None" if r["ok"] is None else "(Some %d)" % r["ok"]})'
    if k == 'idx_to_node':
        return f'(CIdxToNode {cint(c[1])}, RKey {cr(r, t.s)})'
    if k == 'root_idx':
        if 'err' in r:
            return '(CRootIdx, RUnsupported)'
        return f'(CRootIdx, RNat {cnat(r["ok"])})'
    if k == 'idx_query':
        return f'(CIdxQuery {Q[c[1]]} {cint(c[2])}, RNats {cr(r, lambda l: clist([cnat(x) for x in l]))})'
    if k == 'idx_pred':
        return f'(CIdxPred {Q[c[1]]} {cint(c[2])} {cint(c[3])}, RBool {cr(r, cbool)})'
    raise AssertionError(k)


def render_case(case, obs):
    t = Table()
    edges = clist([ctuple([t.s(a), t.s(b)]) for a, b in case['edges']])
    calls = clist([render_call(t, c, r) for c, r in zip(case['calls'], obs['results'])]) if obs['created'] else '[]'
    tbl = clist([cstr(x) for x in t.items])
    return (f'(let tbl := {tbl} in let ks := ktable tbl in let s := tb tbl in let k := kk ks in '
            f'mkCase {FACT[case["factory"]]} {edges} {cbool(obs["created"])} {calls})')


def load_corpus(pid):
    """minimised regression cases, always run first"""
    import glob
    import os
    out = []
    d = os.path.join(os.path.dirname(os.path.dirname(os.path.abspath(__file__))), 'corpus', pid)
    for f in sorted(glob.glob(os.path.join(d, '*.json'))):
        out += json.load(open(f))['cases']
    return out


def evaluate(chk, cases, tag='cases', shard=150, hashseed=None):
    """returns (terms, observations, failing indices)"""
    obs = []
    for part in [cases[i:i + 4000] for i in range(0, len(cases), 4000)]:
        obs += chk.run_impl('graph', {'cases': part}, hashseed=hashseed)['cases']
    crashed = [i for i, o in enumerate(obs) if 'crash' in o]
    live = [i for i, o in enumerate(obs) if 'crash' not in o]
    terms = {i: render_case(cases[i], obs[i]) for i in live}
    failing = [live[j] for j in chk.coq_failing(HEADER, [terms[i] for i in live], 'check_gcase', shard=shard, tag=tag)]
    terms = [terms.get(i, '(* implementation crashed *)') for i in range(len(cases))]
    return terms, obs, sorted(failing + crashed)


def shrink(chk, case, rounds=10, budget=90.0):
    """delta-debug a failing case: drop calls, then edges (keeping the edge list non-empty); bounded in time - a large
    failing graph is reported as it is rather than shrunk for minutes"""
    import time
    t0 = time.time()
    cur = case
    # 1. find a single failing call if possible
    for _ in range(rounds):
        calls = cur['calls']
        if len(calls) <= 1:
            break
        half = [dict(cur, calls=calls[:len(calls) // 2]), dict(cur, calls=calls[len(calls) // 2:])]
        _, _, f = evaluate(chk, half, tag='shrink')
        if not f:
            break
        cur = half[f[0]]
    # 2. drop edges: one at a time for small graphs, in chunks for large ones
    for _ in range(rounds * 3):
        if time.time() - t0 > budget:
            break
        es = cur['edges']
        if len(es) > 24:
            k = max(1, len(es) // 8)
            cands = [dict(cur, edges=es[:i] + es[i + k:]) for i in range(0, len(es), k) if len(es) - k >= 1]
        else:
            cands = [dict(cur, edges=es[:i] + es[i + 1:]) for i in range(len(es)) if len(es) > 1]
        if not cands:
            break
        _, _, f = evaluate(chk, cands, tag='shrink')
        if not f:
            break
        cur = cands[f[0]]
    return cur


def report(chk, pid, cases, failing, theorem, sig_of=None, limit=3):
    """shrinks and reports up to `limit` distinct signatures among the failing cases"""
    seen = {}
    for i in sorted(failing, key=lambda j: len(json.dumps(cases[j]))):
        sig = sig_of(cases[i]) if sig_of else f'{pid}:{cases[i]["factory"]}'
        if sig in seen:
            seen[sig] += 1
            continue
        if len(seen) >= limit:
            continue
        seen[sig] = 1
        small = shrink(chk, cases[i])
        terms, obs, f = evaluate(chk, [small], tag='final')
        model = model_answer(chk, terms[0]) if 'crash' not in obs[0] else 'n/a'
        chk.report_violation(sig, {'case': small, 'impl': obs[0], 'model': model, 'coq_case': terms[0], 'theorem': theorem,
                                   'explanation': 'the implementation answer differs from the answer the proved model fixes '
                                                  '(answers are compared as sorted lists of CURIE values / exact booleans / exception class)'},
                             what=f'graph API answer differs from the model: factory={small["factory"]} edges={json.dumps(small["edges"])} '
                                  f'calls={json.dumps(small["calls"][:3])}')
    return seen


def model_answer(chk, term):
    from common import run_coqc
    f = chk.work / 'model_answer.v'
    f.write_text(HEADER + f'\nEval vm_compute in (model_answers {term}).\n')
    r = run_coqc(f, timeout=120, cwd=chk.work)
    return (r.stdout + r.stderr)[-3000:]


def replay(chk, path, pid):
    rp = json.loads(open(path).read())
    cases = rp['cases'] if 'cases' in rp else [rp['case']]          # a corpus file holds several cases, a replay file one
    terms, obs, f = evaluate(chk, cases, tag='replay')
    chk.note_case({'replay': path})
    for k, case in enumerate(cases):
        chk.note_case(case)
        log('impl now :', json.dumps(obs[k])[:3000])
        log('model    :', model_answer(chk, terms[k]) if 'crash' not in obs[k] else 'n/a')
    log('agree    :', not f)
    for k in sorted(f)[:3]:
        chk.report_violation(rp.get('signature', pid + ':replay'), {'case': cases[k], 'impl': obs[k], 'coq_case': terms[k]},
                             what='replayed case still fails')
