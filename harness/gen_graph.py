"""Generators of acyclic is_a edge lists (DAG shapes x labellings) shared by the graph properties."""
import itertools

POOL_PLAIN = ['HP:%07d' % i for i in range(1, 200)]
# mixed prefixes, '_' delimited CURIEs, ids whose numeric and lexicographic order differ, non-ASCII.
# All distinct as (prefix, id) keys; 'owl:Thing' itself is never an input term (hypothesis of C02).
POOL_MIXED = ['HP:10', 'HP:9', 'HP_010', 'MP:1', 'owl:Thin', 'HP:é', 'A_B:1', 'ZZ:0', 'HP:1', 'HP_02', 'MP_010', 'hp:1',
              'owl:Thinh', 'HP:0000118', 'NCIT_C3117', 'SNOMEDCT_US:128613002', 'HP:', ':1', 'ß:ü', 'HP:100', 'HP:09',
              'MP:9', 'MP:10', 'a:b', 'a:B', 'A:b', 'Z:9', 'HP:2', 'HP:3', 'HP:4', 'HP:5', 'HP:6', 'HP:7', 'HP:8',
              'HP:11', 'HP:12', 'HP:13', 'HP:14', 'HP:15', 'HP:16',
              # one prefix a proper prefix of another, continued by a character that sorts below ':' (the CURIE string order differs from (prefix, id) order)
              'ICD:9', 'ICD10:A', 'HP2:1', 'HP-X:1', 'HP.1:0', 'MP0:7', 'a1:b', 'ICD:100', 'ICD1:0'] + ['MP:%03d' % i for i in range(100, 260)]


def key_of(curie):
    i = curie.find(':')
    if i < 0:
        i = curie.find('_')
    return (curie[:i], curie[i + 1:])


def value_of(curie):
    p, i = key_of(curie)
    return p + ':' + i


assert len({key_of(c) for c in POOL_MIXED}) == len(POOL_MIXED)


def is_acyclic(n, edges):
    succ = {i: [] for i in range(n)}
    for a, b in edges:
        succ[a].append(b)
    state = {}

    def visit(u):
        state[u] = 1
        for v in succ[u]:
            s = state.get(v, 0)
            if s == 1 or (s == 0 and not visit(v)):
                return False
        state[u] = 2
        return True
    return all(state.get(u, 0) == 2 or visit(u) for u in range(n))


def all_acyclic_edge_sets(n):
    """all non-empty acyclic edge sets over n labelled positions (every DAG, forest and multi-root
    shape on <= n nodes and every assignment of positions to sorted ranks)"""
    pairs = [(i, j) for i in range(n) for j in range(n) if i != j]
    for mask in range(1, 1 << len(pairs)):
        edges = [pairs[k] for k in range(len(pairs)) if mask >> k & 1]
        # quick reject of 2-cycles
        es = set(edges)
        if any((b, a) in es for a, b in edges):
            continue
        if is_acyclic(n, edges):
            yield edges


def label(edges, labels):
    return [[labels[a], labels[b]] for a, b in edges]


# ------------------------------------------------------------------------------------------------
# shape families (positions are ints; (a, b) means a is_a b)
# ------------------------------------------------------------------------------------------------
def chain(n):
    return [(i + 1, i) for i in range(n - 1)]


def tree(rng, n):
    return [(i, rng.randrange(i)) for i in range(1, n)]


def diamond_ladder(k):
    # 0 <- {1,2} <- 3 <- {4,5} <- 6 ...
    edges, top, nxt = [], 0, 1
    for _ in range(k):
        a, b, c = nxt, nxt + 1, nxt + 2
        edges += [(a, top), (b, top), (c, a), (c, b)]
        top, nxt = c, nxt + 3
    return edges


def multi_parent(rng, n, p=0.35):
    edges = []
    for i in range(1, n):
        ps = [j for j in range(i) if rng.random() < p] or [rng.randrange(i)]
        edges += [(i, j) for j in ps]
    return edges


def multi_root(rng, n, roots):
    edges = []
    for i in range(roots, n):
        ps = [j for j in range(i) if rng.random() < 0.25] or [rng.randrange(i)]
        edges += [(i, j) for j in ps]
    # make sure every root has a child (otherwise it would not be a node)
    used = {b for _, b in edges}
    for r in range(roots):
        if r not in used:
            edges.append((rng.randrange(roots, n) if n > roots else r, r))
    return [(a, b) for a, b in edges if a != b]


def random_dag(rng, nmin=5, nmax=14):
    n = rng.randint(nmin, nmax)
    fam = rng.choice(['chain', 'tree', 'ladder', 'multi_parent', 'multi_root', 'multi_root', 'long_chain'])
    if fam == 'chain':
        edges = chain(n)
    elif fam == 'tree':
        edges = tree(rng, n)
    elif fam == 'ladder':
        edges = diamond_ladder(max(1, n // 3))
    elif fam == 'multi_parent':
        edges = multi_parent(rng, n)
    elif fam == 'multi_root':
        edges = multi_root(rng, n, rng.randint(2, 4))
    else:
        edges = chain(min(40, nmax * 3))
    if not edges:
        edges = [(1, 0)]
    m = 1 + max(max(a, b) for a, b in edges)
    # random relabelling of positions so that sorted rank is unrelated to depth
    perm = list(range(m))
    rng.shuffle(perm)
    edges = [(perm[a], perm[b]) for a, b in edges]
    edges = list(dict.fromkeys(edges))
    rng.shuffle(edges)
    return fam, m, edges


def pick_labels(rng, m, pool=None):
    pool = pool or (POOL_PLAIN if rng.random() < 0.5 else POOL_MIXED)
    return rng.sample(pool, m) if rng.random() < 0.7 else sorted(rng.sample(pool, m))


def nodes_of(edges):
    return sorted({x for e in edges for x in e})


def dense_graph(rng, m=24):
    """a DAG with more edges than an 8-bit index can count on fewer than 256 nodes (index arrays sized by the node count must
    not be used for edge offsets): m labelled nodes, an edge i -> j for most j < i"""
    labels = rng.sample(POOL_PLAIN[:150], m)
    order = sorted(labels, key=key_of)
    rng.shuffle(order)
    es = [[order[i], order[j]] for i in range(m) for j in range(i) if (i - j) <= 14 or rng.random() < 0.8]
    rng.shuffle(es)
    return es


def lookalikes(curie):
    """absent ids that a 'normalising' id class would take for `curie` (PREFIX:ID with ':'): other zero padding, sign, blanks
    around the parts, digit group separators, non-ASCII decimal digits, other letter case of the prefix.  As strings all of
    them differ from `curie`, so as term ids they are different ids."""
    if ':' not in curie:
        return []
    p, d = curie.split(':', 1)
    out = [p + ':0' + d, p + ':' + d + ' ', ' ' + p + ':' + d, p + ':' + d + '\t']
    if d[:1] == '0' and len(d) > 1:
        out += [p + ':' + d[1:], p + ':+' + d[1:], p + ': ' + d[1:], p + ':' + d[1:] + ' ']
    if d[:2] == '00' and len(d) > 3 and d[2:].isdigit():
        out.append(p + ':0_' + d[2:])
    if d.isascii() and d.isdigit():
        out.append(p + ':' + ''.join(chr(0xFF10 + int(ch)) for ch in d))
    for q in (p.lower(), p.upper(), p.capitalize()):
        if q != p:
            out.append(q + ':' + d)
    return [x for x in dict.fromkeys(out) if x != curie]
