"""Observation of SimpleHpoaDiseaseLoader on rendered HPOA files (C08)."""
import os
import warnings

warnings.simplefilter('ignore')

import hpotk  # noqa: E402
from hpotk.model import TermId, MinimalTerm  # noqa: E402
from hpotk.ontology import create_minimal_ontology  # noqa: E402
from hpotk.graph import CsrIndexedGraphFactory  # noqa: E402
from hpotk.annotations.load.hpoa import SimpleHpoaDiseaseLoader  # noqa: E402
from hpotk.constants.hpo.frequency import HPO_FREQUENCIES  # noqa: E402


def exn_name(e):
    n = type(e).__name__
    return n if n in ('ValueError', 'IndexError', 'KeyError', 'TypeError') else 'Other:' + n


def make_hpo():
    g = CsrIndexedGraphFactory().create_graph([(TermId.from_curie('HP:0000002'), TermId.from_curie('HP:0000001'))])
    terms = [MinimalTerm.create_minimal_term(t, 'n', [], False) for t in g]
    return create_minimal_ontology(g, terms, 'v')


HPO = make_hpo()
FREQ_TERMS = ['HP:0040285', 'HP:0040284', 'HP:0040283', 'HP:0040282', 'HP:0040281', 'HP:0040280']


def freq_table():
    out = []
    for c in FREQ_TERMS:
        f = HPO_FREQUENCIES[TermId.from_curie(c)]
        out.append([float(f.lower_bound).hex(), float(f.upper_bound).hex(), float(f.frequency).hex()])
    return out


LOADERS, COUNT = {}, [0]


def observe_case(case, workdir):
    path = os.path.join(workdir, 'case%d.hpoa' % os.getpid())
    with open(path, 'w', encoding='utf-8') as fh:
        fh.write(case['text'])
    try:
        # two cases out of three go through a loader instance that has loaded other files before (one per configuration, kept
        # for the whole run): what a loader returns is a function of the file alone
        COUNT[0] += 1
        key = (case['cohort'], case['salvage'])
        if COUNT[0] % 3 and key in LOADERS:
            loader = LOADERS[key]
        else:
            loader = SimpleHpoaDiseaseLoader(HPO, cohort_size=case['cohort'], salvage_negated_frequencies=case['salvage'])
            LOADERS.setdefault(key, loader)
        try:
            ds = loader.load(path)
        except Exception as e:
            return {'err': exn_name(e)}
        out, direct = [], []
        ids = [d.identifier.value for d in ds]
        if len(ds) != len(ids):
            direct.append('len(diseases) differs from the number iterated')
        for d in ds:
            anns = []
            for a in d.annotations:
                refs = sorted(r.identifier.value + '|' + r.evidence_code.name for r in a.references)
                mods = sorted((m.value if isinstance(m, TermId) else 'str:' + str(m)) for m in a.modifiers)
                anns.append([a.identifier.value, a.numerator, a.denominator, refs, mods])
                if a.is_present != (a.numerator > 0):
                    direct.append(f'{a.identifier.value}: is_present={a.is_present} but numerator={a.numerator}')
                if a.frequency() != a.numerator / a.denominator:
                    direct.append(f'{a.identifier.value}: frequency() != numerator/denominator')
                if not (0 <= a.numerator <= a.denominator and a.denominator > 0):
                    direct.append(f'{d.identifier.value}/{a.identifier.value}: numerator {a.numerator} / denominator {a.denominator} outside 0 <= n <= d, d > 0')
                if ds[d.identifier] is not d:
                    direct.append('lookup by id does not return the disease')
            moi = sorted((m.value if isinstance(m, TermId) else 'str:' + str(m)) for m in d.modes_of_inheritance)
            out.append([d.identifier.value, d.name, sorted(anns), moi])
        return {'ok': sorted(out), 'version': ds.version, 'direct': direct}
    finally:
        os.remove(path)


def observe(payload):
    res = []
    for case in payload['cases']:
        try:
            res.append(observe_case(case, payload['workdir']))
        except Exception as e:
            res.append({'crash': exn_name(e) + ': ' + str(e)[:300]})
    return {'cases': res, 'freq_table': freq_table()}
