"""C07 - ontology store cache stays correct under repeats, failures, crashes and races."""
import itertools
import json

from common import cstr, cnat, clist, ctuple, cexn, log, run_coqc

TRUSTED_BASE = [
    'the store is driven on the REAL file system inside work/C07 with injected remote / release services; every I/O boundary of a load (isfile, fetch, create temp, read, '
    'write, close, os.replace, load) is intercepted by replacing module attributes of hpotk.store._api from the harness',
    'the model steps and the intercepted boundaries are aligned one to one; kills are os._exit in a forked child before boundary k (no flush, like SIGKILL); races are two or '
    'three threads released one boundary at a time by a scheduler that snapshots the store after every boundary',
    'the names found under the store directory are classified inside Coq (Store.Paths.classify) and resolve_store_path is compared with Store.Paths.final_name; '
    'a write can fail at write() or - buffered - at close() (two fault kinds of the model)',
    'TRANSLATOR (harness/translate_store.py, fail-closed): the OntologyType identifiers, the file-name f-string of resolve_store_path and the mkstemp prefix / suffix are read off the '
    'source AST on every run and proved equal to Store.Paths (work/C07/StoreGen.v)',
    'PARTIAL: fsync / power-loss durability and non-POSIX rename semantics are outside the model (os.replace assumed atomic, mkstemp names unique and never a cache location); '
    'thread preemption inside a boundary is not explored',
]
ASSUMPTIONS = ['remote content per (type, release) is fixed; release tags are compared as Python str']
THEOREM = 'C07_no_incomplete_file_ever / C07_fetch_only_on_miss / C07_cache_hit / C07_loaded_equals_direct / C07_recovery / C07_latest_is_greatest / C07_clear / C07_names / C07_names_distinct'

HEADER = '''From Coq Require Import String List.
From Hpotk Require Import Base.Result Base.Emit Store.Model Corr.C07.
Import ListNotations.
Open Scope string_scope.
Open Scope list_scope.'''

RELEASES = [['v2023-01-27', 'v2023-10-09', 'v2024-04-26'], ['v2024-05-24', 'v2023-12-01'], ['v2024-01-03']]
R0 = RELEASES[0]


def cfault(p):
    if p is None:
        return 'NoFault'
    if p == 'fetch':
        return 'FetchRaises'
    if p == 'read':
        return 'ReadRaises'
    if p[0] == 'close':
        return f'(CloseFails {int(p[1])})'
    return f'(WriteFails {int(p[1])})'


def cobs(snap, outcomes):
    """a checkpoint: the raw directory listing (classified by Store.Paths inside Coq), the fetch log, the outcomes"""
    lst = clist([ctuple([cstr(rel), 'None' if tag is None else f'(Some {ctuple([cnat(tag[0]), cstr(tag[1])])})']) for rel, tag in snap['listing']])
    return (f'{lst} {clist([ctuple([cnat(t), cstr(r)]) for t, r in snap["fetches"]])} {clist([cnat(o) for o in outcomes])}')


def cloader(t, r, plan, i):
    return f'(mkLoader {t} {cstr(r)} {cfault(plan)} {i} PStart)'


def remote_table(releases):
    return clist([ctuple([ctuple([cnat(t), cstr(r)]), clist([cnat(t), cnat(k)])]) for t, rs in enumerate(releases) for k, r in enumerate(rs)])


def resolve_release(releases, t, r):
    return r if r is not None else max(releases[t])


def render(case, obs):
    rel = case.get('releases', RELEASES)
    cmds = []
    if case['kind'] == 'latest':
        o = f'(Ok {cstr(obs["ok"])} : res string)' if 'ok' in obs else f'(Err {cexn(obs["err"])} : res string)'
        return ('latest', f'({clist([cstr(x) for x in case["tags"]])}, {o})')
    if case['kind'] == 'history':
        i = 0
        rel = [list(r) for r in rel]
        for op in case['ops']:                       # the remote table of the model holds every release ever published
            if op[0] == 'publish' and op[2] not in rel[op[1]]:
                rel[op[1]].append(op[2])
        known = [list(r) for r in case.get('releases', RELEASES)]
        for op, st in zip(case['ops'], obs['steps']):
            if op[0] == 'publish':
                if op[2] not in known[op[1]]:
                    known[op[1]].append(op[2])
            elif op[0] == 'load':
                cmds += [f'CAct (Spawn {cloader(op[1], resolve_release(known, op[1], op[2]), op[3], i)})', f'CFinish {i}']
                i += 1
            elif op[0] == 'clear':
                cmds.append('CAct ClearAll' if op[1] is None else f'CAct (ClearType {op[1]})')
            if st.get('resolved'):
                cmds.append(f'CResolve {st["resolved"][0]} {cstr(st["resolved"][1])} {cstr(st["resolved"][2])}')
            cmds.append(f'CListing {cobs(st["snap"], st["outcomes"])}')
    elif case['kind'] == 'kill':
        i = 0
        for op in case['before']:
            cmds += [f'CAct (Spawn {cloader(op[1], op[2], None, i)})', f'CFinish {i}']
            i += 1
        t, r, k = case['victim']
        cmds.append(f'CAct (Spawn {cloader(t, r, None, i)})')
        cmds += [f'CAct (Step {i})'] * (k - 1)
        cmds.append(f'CAct (Kill {i})')
        cmds.append(f'CListing {cobs(obs["snap1"], obs["outcomes1"])}')
        i += 1
        cmds += [f'CAct (Spawn {cloader(t, r, None, i)})', f'CFinish {i}', f'CListing {cobs(obs["snap2"], obs["outcomes2"])}']
    elif case['kind'] == 'race':
        for i, (t, r, plan) in enumerate(case['loaders']):
            cmds.append(f'CAct (Spawn {cloader(t, r, plan, i)})')
        cmds += [f'CAct (Step {i})' for i in case['schedule']]
        cmds += [f'CFinish {i}' for i in range(len(case['loaders']))]
        cmds.append(f'CListing {cobs(obs["snap"], obs["outcomes"])}')
    return ('scenario', f'(mkSCase {remote_table(rel)} {clist(["(" + c + ")" for c in cmds])})')


def evaluate(chk, cases, tag='cases'):
    obs = []
    for part in [cases[i:i + 400] for i in range(0, len(cases), 400)]:
        obs += chk.run_impl('C07', {'cases': part, 'workdir': str(chk.work)}, timeout=1500)['cases']
    failing = {}
    sc, la = [], []
    for i, (c, o) in enumerate(zip(cases, obs)):
        if 'crash' in o:
            failing[i] = ['driver crashed: ' + o['crash']]
            continue
        if c['kind'] in ('republish', 'empty'):       # evaluated directly on the implementation (the model's remote is a fixed function)
            continue
        kind, term = render(c, o)
        (sc if kind == 'scenario' else la).append((i, term))
    for j in chk.coq_failing(HEADER, [t for _, t in sc], 'check_scase7', shard=150, tag=tag):
        failing.setdefault(sc[j][0], []).append('the observed store states / outcomes / fetch log differ from the model at some checkpoint')
    for j in chk.coq_failing(HEADER, [t for _, t in la], "(fun c => check_latest (fst c) (snd c))", shard=300, tag=tag + '_latest'):
        failing.setdefault(la[j][0], []).append('latest tag differs from the model')
    for i, o in enumerate(obs):
        if o.get('direct'):
            failing.setdefault(i, [])
            failing[i] = o['direct'] + failing[i]
    terms = {i: t for i, t in sc + la}
    return terms, obs, failing


ALPHABET = [['load', 0, 'v2023-10-09', None, False], ['load', 0, None, None, False], ['load', 1, None, None, False], ['load', 0, None, 'fetch', False],
            ['load', 0, None, 'read', False], ['load', 0, None, ['write', 5], False], ['load', 0, None, ['close', 3], False], ['load', 0, 'v2023-01-27', None, True],
            ['clear', 0], ['clear', 1], ['clear', 2], ['clear', None], ['resolve', 0, None], ['publish', 0, 'v2025-01-15']]


def interleavings(a, b):
    """all interleavings of a steps of loader 0 and b steps of loader 1"""
    for pos in itertools.combinations(range(a + b), a):
        s = [1] * (a + b)
        for p in pos:
            s[p] = 0
        yield s


def preemptions(s):
    return sum(1 for x, y in zip(s, s[1:]) if x != y)


def gen(chk):
    rng = chk.rng
    thorough = chk.tier == 'thorough'
    cases = []
    for relative in (False, True):
        for L in (1, 2):
            for seq in itertools.product(ALPHABET, repeat=L):
                cases.append({'kind': 'history', 'relative': relative, 'releases': RELEASES, 'ops': [list(o) for o in seq], 'exh': True})
    for _ in range(1500 if thorough else 200):
        n = rng.randint(3, 8)
        cases.append({'kind': 'history', 'relative': rng.random() < 0.5, 'releases': RELEASES, 'ops': [list(rng.choice(ALPHABET)) for _ in range(n)]})
    # kills at every boundary, with nothing / the same release / another release cached before
    for relative in (False, True):
        for before in ([], [['load', 0, R0[2]]], [['load', 0, R0[0]]], [['load', 1, RELEASES[1][0]]]):
            hit = before == [['load', 0, R0[2]]]
            for k in range(1, 3 if hit else 9):
                cases.append({'kind': 'kill', 'relative': relative, 'releases': RELEASES, 'before': before, 'victim': [0, R0[2], k]})
    # races
    all14 = list(interleavings(8, 8))
    if thorough:
        scheds = all14
    else:
        scheds = [s for s in all14 if preemptions(s) <= 2] + rng.sample(all14, 120)
    for s in scheds:
        cases.append({'kind': 'race', 'relative': False, 'releases': RELEASES, 'loaders': [[0, R0[2], None], [0, R0[2], None]], 'schedule': s})
    for _ in range(400 if thorough else 80):
        plans = [rng.choice([None, None, 'fetch', 'read', ['write', 5], ['close', 2]]), rng.choice([None, None, 'read'])]
        other = rng.random() < 0.3
        s = rng.choice(all14)
        cases.append({'kind': 'race', 'relative': rng.random() < 0.3, 'releases': RELEASES,
                      'loaders': [[0, R0[2], plans[0]], [0, R0[0] if other else R0[2], plans[1]]], 'schedule': s})
    for _ in range(200 if thorough else 40):
        s = [rng.randrange(3) for _ in range(24)]
        cases.append({'kind': 'race', 'relative': False, 'releases': RELEASES,
                      'loaders': [[0, R0[2], None], [0, R0[2], rng.choice([None, 'read'])], [0, R0[2], None]], 'schedule': s})
    # the remote re-publishes a tag with other content after the store was cleared
    for relative in (False, True):
        for full in (False, True):
            for clear in (None, 0):
                for warm in (1, 2):
                    cases.append({'kind': 'republish', 'relative': relative, 'releases': RELEASES, 't': 0, 'release': R0[(warm + full) % len(R0)], 'full': full, 'clear': clear, 'warm': warm})
    # the remote serves zero bytes for a tag
    for relative in (False, True):
        for full in (False, True):
            cases.append({'kind': 'empty', 'relative': relative, 'releases': RELEASES, 't': 0, 'release': R0[1], 'full': full})
    # latest tag
    for tags in ([], ['v1'], ['v2023-10-09', 'v2024-04-26', 'v2023-01-27'], ['v9', 'v10'], ['2024', 'v2023'], ['b', 'a', 'c', 'B'], ['v2024-4-26', 'v2024-04-26'], ['é', 'z']):
        cases.append({'kind': 'latest', 'tags': tags})
    for _ in range(60):
        cases.append({'kind': 'latest', 'tags': [''.join(rng.choice('v0129-é') for _ in range(rng.randint(1, 6))) for _ in range(rng.randint(0, 5))]})
    return cases


def run(chk):
    import translate_store
    from common import REPO
    broken_tie = chk.translation_tie(translate_store.translate, REPO / 'src' / 'hpotk' / 'store' / '_api.py', 'StoreGen.v')
    cases = gen(chk)
    for c in cases:
        chk.count('kind:' + c['kind'])
        if c['kind'] != 'latest':
            chk.count('store_dir:' + ('relative' if c.get('relative') else 'absolute'))
        if c['kind'] == 'history':
            for op in c['ops']:
                chk.count('op:' + op[0] + (':' + (op[3] if isinstance(op[3], str) else 'write') if op[0] == 'load' and op[3] else ''))
        if c['kind'] == 'kill':
            chk.count('kill_at_boundary:%s' % c['victim'][2])
        chk.note_case(c, nontrivial=True, sample_every=250)
    terms, obs, failing = evaluate(chk, cases)
    chk.evaluations = len(cases)
    chk.traces = sum(1 for c in cases if c['kind'] != 'latest')
    chk.exhaustive = True
    chk.extra['race_schedules'] = sum(1 for c in cases if c['kind'] == 'race')
    chk.rule = ('ALL histories of length <= 2 over 14 operations {load a release / latest / another type, load with fetch / read / write / flush-at-close fault, full loader, the remote publishes a newer release, clear(type) x3, clear(), '
                'resolve path} x {absolute, relative} store + random histories of length 3-8: after EVERY operation the store is snapshot (cache files and their bytes, other '
                'files, fetch log, outcome of every load) and compared with the model; a kill (os._exit in a forked child) before EVERY I/O boundary of a load with nothing / the '
                'same / another release cached, followed by a recovery load; races of two loaders of the same release: all interleavings with <= 2 preemptions + 120 random '
                '(thorough: all 12870 interleavings of 8 + 8 boundaries), races with faulty loaders / other releases / three loaders, the store snapshot after EVERY boundary; latest-tag selection on 68 tag lists; load / clear / the remote re-publishes the SAME tag with other content / load / load again x {absolute, relative} x {minimal, full} x {clear(), clear(type)} (evaluated directly: nothing cached -> fetched, stored, loaded; then a cache hit); a tag for which the remote serves zero bytes, loaded three times (one fetch, the same failure each time)')
    if failing:
        report(chk, cases, obs, failing)
    if broken_tie:
        chk.report_broken_tie('C07:translation', broken_tie, 'Lemma names_src_ok (work/C07/StoreGen.v)', 'C07_names / C07_names_distinct / C07_names_type_directory')


def sig_of(case, problems):
    p = problems[0]
    if 'yet the remote was asked' in p:
        what = 'fetch-with-complete-copy'
    elif 'differs from loading the served bytes' in p:
        what = 'wrong-ontology'
    elif 'did not succeed' in p or 'no copy at its cache location' in p:
        what = 'healthy-load-fails'
    elif 'clear of one type' in p:
        what = 'clear-type'
    elif 'omitting the release' in p:
        what = 'latest'
    elif 'incomplete file' in p:
        what = 'incomplete-file'
    elif p.startswith('clear('):
        what = 'clear-raises'
    elif 'not empty' in p:
        what = 'clear-all'
    elif 'after a kill' in p or 'recovery' in p:
        what = 'no-recovery'
    elif 'resolve' in p:
        what = 'resolve'
    else:
        what = 'model-mismatch'
    return 'C07:%s:%s' % (case['kind'], what)


def shrink(chk, case):
    if case['kind'] != 'history':
        return case
    cur = case
    for _ in range(10):
        ops = cur['ops']
        cands = [dict(cur, ops=ops[:i] + ops[i + 1:]) for i in range(len(ops)) if len(ops) > 1]
        if not cands:
            break
        _, _, f = evaluate(chk, cands, tag='shrink')
        if not f:
            break
        cur = cands[sorted(f)[0]]
    return cur


def model_only(problems):
    return all('differ from the model' in p or 'differs from the model' in p for p in problems)


def report(chk, cases, obs, failing, limit=5):
    seen = {}
    # the property is evaluated directly on the real store (complete-or-absent cache files at every checkpoint, no fetch
    # with a complete copy, the right ontology, healthy loads succeed, recovery after kills, clear exactness, greatest
    # tag); a run that only deviates from the MODEL's step-by-step states breaks the correspondence, not the property
    mo = [i for i in failing if model_only(failing[i])]
    for kind in sorted({cases[i]['kind'] for i in mo}):
        idx = [i for i in mo if cases[i]['kind'] == kind]
        i = min(idx, key=lambda j: len(json.dumps(cases[j])))
        chk.correspondence_break(f'C07:{kind}:model-mismatch', {'case': cases[i], 'cases_with_this_disagreement': len(idx), 'theorem': THEOREM,
                                                                'broken': ['Corr.C07.check_scase7 / check_latest: the store model run in lock-step with the real store']},
                                 what=f'C07:{kind}:model-mismatch: the observed store states / outcomes / fetch log differ from the model at some checkpoint on {len(idx)} cases, e.g. {json.dumps(cases[i])[:300]}')
    failing = {i: p for i, p in failing.items() if i not in set(mo)}
    for i in sorted(failing, key=lambda j: len(json.dumps(cases[j]))):
        sig = sig_of(cases[i], failing[i])
        if sig in seen or len(seen) >= limit:
            continue
        seen[sig] = 1
        small = shrink(chk, cases[i])
        terms, o, f = evaluate(chk, [small], tag='final')
        compact = {k: v for k, v in o[0].items() if k in ('direct', 'outcomes', 'outcomes1', 'outcomes2', 'snap', 'snap1', 'snap2', 'killed', 'crash')}
        if 'steps' in o[0]:
            compact['steps'] = [{'outcomes': s['outcomes'], 'snap': s['snap'], 'error': s.get('error')} for s in o[0]['steps']]
        chk.report_violation(sig, {'case': small, 'impl': compact, 'problems': f.get(0, failing[i])[:5], 'theorem': THEOREM, 'failing_cases_total': len(failing)},
                             what=f'{sig}: {f.get(0, failing[i])[0]} | {json.dumps(small)[:500]}')


def replay(chk, path):
    rp = json.loads(open(path).read())
    cases = rp['cases'] if 'cases' in rp else [rp['case']]
    for case in cases:
        terms, obs, f = evaluate(chk, [case], tag='replay')
        chk.note_case(case)
        log('impl now :', json.dumps(obs[0])[:1500])
        log('problems :', f.get(0, []))
        if f:
            chk.report_violation(rp.get('signature', 'C07:replay'), {'case': case, 'impl': obs[0], 'problems': f[0]}, what='replayed case still fails')
