"""C13 - term-id argsort always returns a permutation of the input positions."""
import json

import gen_graph as G
import graphcorr as GC
from common import cnat, clist, log, run_coqc

TRUSTED_BASE = [
    'the similarity measures are NOT modelled: the theorems quantify over every decision oracle and over every stream of similarity values; the loop itself IS modelled in full '
    '(symmetric matrix with zero diagonal, first-position argmax over the flattened matrix, epsilon test, the pops, the extra call of the arbitrary branch): the correspondence wraps the '
    'sorter\'s measure, records the values it returns call by call (as ranks) and runs them through the model; where numpy.argmax can be intercepted the recorded decisions are replayed as well',
    'ids are compared by equality only and are rendered as naturals',
    'the property predicate (permutation of range(n), (0,) for one item, same answer for Identified inputs / a second call, input untouched, tuple result) is also '
    'evaluated directly on every implementation output',
]
ASSUMPTIONS = ['ids are nodes of the graph (otherwise the similarity measure raises)']
THEOREM = 'C13_argsort_is_a_permutation / C13_single_item / C13_cluster_keeps_every_leaf / C13_find_indices'

HEADER = '''From Coq Require Import List Arith ZArith.
From Hpotk Require Import Base.Result Base.Emit Sort.Model Corr.C13.
Import ListNotations.
Open Scope list_scope.'''


def cdec(d):
    return 'DLast' if d[0] == 'last' else f'(DPair {d[1]} {d[2]})'


def copt(r):
    return '(Some ' + clist([cnat(x) for x in r['ok']]) + ')' if 'ok' in r else 'None'


def render_seq(ids, obs):
    """the tie: the similarity VALUES the measure returned, call by call, through the model's own argmax / epsilon logic
    (Sort.Argmax); when numpy's argmax could be intercepted as well and a decision was recorded for every round, the
    recorded decisions are replayed too"""
    code = {}
    ids = [code.setdefault(G.key_of(x), len(code)) for x in ids]
    out = []
    sims = obs.get('sims')
    if sims is not None:
        out.append(f'(SArgsortVals {clist([cnat(x) for x in ids])} {sims["zero"]}%Z {sims["eps"]}%Z {clist([str(v) + "%Z" for v in sims["vals"]])} {copt(obs)})')
    if len(obs.get('decisions', [])) == max(len(ids) - 1, 0) or sims is None:
        out.append(f'(SArgsort {clist([cnat(x) for x in ids])} {clist([cdec(d) for d in obs["decisions"]])} {copt(obs)})')
    return out


def render(case, obs):
    """a list of Coq terms: the main call and every follow-up call on the same sorter"""
    if case['kind'] == 'find_indices':
        return [f'(SFindIndices {clist([cnat(x) for x in case["source"]])} {clist([cnat(x) for x in case["ordered"]])} {copt(obs)})']
    out = render_seq(case['ids'], obs)
    for seq, o in zip(case.get('followups', []), obs.get('followups', [])):
        out += render_seq(seq, o)
    return out


def predicate_problems(case, obs):
    if case['kind'] == 'find_indices':
        return []
    n = len(case['ids'])
    if n == 0:
        return [] if obs.get('err') == 'ValueError' else ['empty input must raise ValueError']
    if 'ok' not in obs:
        return ['argsort raised ' + obs.get('err', '?')]
    p = []
    r = obs['ok']
    if sorted(r) != list(range(n)):
        p.append(f'not a permutation of range({n}): {r}')
    if n == 1 and r != [0]:
        p.append(f'single item must give (0,), got {r}')
    if not obs.get('is_tuple'):
        p.append('result is not a tuple')
    if not obs.get('input_untouched'):
        p.append('the input sequence was modified')
    if obs.get('identified') != r:
        p.append(f'identified objects give {obs.get("identified")}, TermIds give {r}')
    for kind in ('as_array', 'as_deque'):
        if kind in obs and obs[kind] != r:
            p.append(f'identified objects / another kind of sequence: the same ids {kind.replace("_", " ")} give {obs[kind]}, as a list {r}')
    if obs.get('again') != r:
        p.append(f'second call gives {obs.get("again")}, first call gave {r}')
    for seq, o in zip(case.get('followups', []), obs.get('followups', [])):
        if 'ok' not in o:
            p.append(f'follow-up call on the same sorter with {seq} raised {o.get("err")}')
        elif sorted(o['ok']) != list(range(len(seq))):
            p.append(f'follow-up call on the same sorter with {seq} is not a permutation: {o["ok"]}')
    return p


def evaluate(chk, cases, tag='cases', shard=300):
    obs = []
    for part in [cases[i:i + 1500] for i in range(0, len(cases), 1500)]:
        obs += chk.run_impl('C13', {'cases': part})['cases']
    bad = [i for i, o in enumerate(obs) if 'crash' in o]
    live = [i for i in range(len(cases)) if i not in set(bad)]
    terms = {i: render(cases[i], obs[i]) for i in live}
    flat, owner = [], []
    for i in live:
        for t in terms[i]:
            flat.append(t)
            owner.append(i)
    MODEL_ONLY = 'implementation output differs from the model replaying its own decisions'
    failing = {owner[j]: [MODEL_ONLY]
               for j in chk.coq_failing(HEADER, flat, 'check_scase', shard=shard, tag=tag)}
    terms = {i: terms[i][0] for i in live}
    for i in bad:
        failing[i] = ['observer crashed: ' + obs[i]['crash']]
    for i in live:
        p = predicate_problems(cases[i], obs[i])
        if p:
            failing.setdefault(i, [])
            failing[i] += p
    return terms, obs, failing


def gen_seq(rng, nodes, n, repeats):
    if not repeats:
        return rng.sample(nodes, min(n, len(nodes)))
    seq = [rng.choice(nodes) for _ in range(n)]
    if n >= 2 and len(set(seq)) == n:
        seq[rng.randrange(n)] = seq[(rng.randrange(n) + 1) % n] if rng.random() < 0.5 else seq[0]
    return seq


def gen(chk):
    rng = chk.rng
    thorough = chk.tier == 'thorough'
    cases = []
    maxlen = 12 if thorough else 7
    for i in range(6000 if thorough else 1500):
        fam, m, edges = G.random_dag(rng, 4, 14)
        labels = G.pick_labels(rng, m, pool=G.POOL_PLAIN)
        es = G.label(edges, labels)
        nodes = G.nodes_of(es)
        n = rng.randint(1, maxlen)
        kind = ['edge', 'ic', 'scripted'][i % 3]
        c = {'kind': kind, 'factory': rng.choice(['idx', 'inc', 'bld']), 'edges': es, 'ids': gen_seq(rng, nodes, n, repeats=rng.random() < 0.5)}
        if kind != 'scripted' and rng.random() < 0.6:
            ids = c['ids']
            fu = [ids + [rng.choice(ids)], list(dict.fromkeys(ids))]
            if rng.random() < 0.5:
                fu.append(gen_seq(rng, nodes, rng.randint(1, maxlen), repeats=True))
            c['followups'] = fu
        if kind == 'ic':
            mode = rng.choice(['injective', 'zero', 'ties', 'negative'])
            vals = {'injective': lambda j: (j + 1) * 0.125, 'zero': lambda j: 0.0, 'ties': lambda j: float(j % 3), 'negative': lambda j: float(j % 4) - 1.5}[mode]
            perm = list(range(len(nodes)))
            rng.shuffle(perm)
            c['ic'] = [[x, vals(perm[j])] for j, x in enumerate(nodes)]
            c['ic_mode'] = mode
        if kind == 'scripted':
            c['seed'] = rng.randrange(10 ** 6)
            c['levels'] = rng.choice([[0.0, 0.25, 0.5, 1.0, 2.0], [0.0], [0.0, 1.0], [1.0], [0.0, 0.0, 3.0, -1.0]])
        cases.append(c)
    cases.append({'kind': 'edge', 'factory': 'idx', 'edges': [['HP:0000002', 'HP:0000001']], 'ids': []})
    for _ in range(600 if thorough else 150):
        n = rng.randint(1, 9)
        src = [rng.randrange(1, 5 if rng.random() < 0.6 else 30) for _ in range(n)]
        ordr = list(src)
        rng.shuffle(ordr)
        cases.append({'kind': 'find_indices', 'source': src, 'ordered': ordr})
    return cases


def run(chk):
    cases = GC.load_corpus('C13') + gen(chk)
    for c in cases:
        chk.count('kind:' + c['kind'] + (':' + c['ic_mode'] if 'ic_mode' in c else ''))
        if c['kind'] != 'find_indices':
            chk.count('len:%d' % len(c['ids']))
            chk.count('repeated_ids' if len({G.key_of(x) for x in c['ids']}) < len(c['ids']) else 'distinct_ids')
        chk.note_case(c, nontrivial=(len(c.get('ids', c.get('source', []))) >= 2), sample_every=150)
    terms, obs, failing = evaluate(chk, cases)
    chk.evaluations = len(cases)
    chk.traces = sum(1 for c in cases if c['kind'] != 'find_indices')
    chk.extra['decisions_replayed'] = sum(len(o.get('decisions', [])) for o in obs)
    chk.extra['last_two_decisions'] = sum(1 for o in obs for d in o.get('decisions', []) if d[0] == 'last')
    chk.rule = ('random DAGs (shape families) x sequences of 1-7 (thorough: 1-12) nodes, half of them with repeated ids, through HierarchicalEdgeTermIdSorting, '
                'HierarchicalIcTermIdSorting (injective / all-zero / tied / partly negative IC) and HierarchicalSorting with a scripted arbitrary similarity measure; every run: '
                'the decisions taken by the real loop are recorded and replayed through the model - the index tuple must be identical - and the property predicate is '
                'evaluated on the output (permutation, (0,), Identified inputs, second call, input untouched); _find_indices called directly on random rearrangements with repeats; 60% of the runs are followed by 2-3 more calls on the SAME sorter instance (same id set with other multiplicities, de-duplicated, unrelated), each replayed and checked too; '
                'the empty sequence must raise ValueError')
    if failing:
        report(chk, cases, obs, failing)


def shrink(chk, case):
    if case['kind'] == 'find_indices':
        return case
    cur = case
    for _ in range(12):
        ids = cur['ids']
        cands = [dict(cur, ids=ids[:i] + ids[i + 1:]) for i in range(len(ids)) if len(ids) > 1]
        if not cands:
            break
        _, _, f = evaluate(chk, cands, tag='shrink')
        if not f:
            break
        cur = cands[sorted(f)[0]]
    return cur


def model_answer(chk, term):
    f = chk.work / 'model_answer.v'
    f.write_text(HEADER + f'\nEval vm_compute in (smodel_answer {term}).\n')
    r = run_coqc(f, timeout=120, cwd=chk.work)
    return (r.stdout + r.stderr)[-1500:]


def model_only(problems):
    return all('differs from the model' in p for p in problems)


def report(chk, cases, obs, failing, limit=3):
    seen = {}
    # the property itself (a permutation, (0,) for one item, input untouched, same answer for identified objects and on a
    # second call) is evaluated on the implementation's output; a run whose output only differs from the MODEL's order
    # (another tie-break, another way of choosing the pair to merge) breaks the correspondence, not the property
    mo = [i for i in failing if model_only(failing[i]) and cases[i]['kind'] != 'find_indices']
    if mo:
        i = min(mo, key=lambda j: len(json.dumps(cases[j])))
        chk.correspondence_break('C13:correspondence', {'case': cases[i], 'impl': obs[i], 'cases_with_this_disagreement': len(mo), 'theorem': THEOREM,
                                                        'broken': ['Corr.C13.check_scase: the model replaying the recorded decisions (np.argmax) yields another index tuple']},
                                 what=f'C13:correspondence: the returned order differs from the model replaying the recorded decisions on {len(mo)} cases, e.g. ids={json.dumps(cases[i].get("ids"))}')
    failing = {i: p for i, p in failing.items() if i not in set(mo)}
    for i in sorted(failing, key=lambda j: len(json.dumps(cases[j]))):
        c = cases[i]
        rep = c['kind'] != 'find_indices' and len({G.key_of(x) for x in c['ids']}) < len(c['ids'])
        sig = 'C13:%s:%s' % (c['kind'], 'repeated-ids' if rep else 'not-a-permutation' if any('permutation' in p for p in failing[i]) else 'other')
        if sig in seen or len(seen) >= limit:
            continue
        seen[sig] = 1
        small = shrink(chk, c)
        terms, o, f = evaluate(chk, [small], tag='final')
        chk.report_violation(sig, {'case': small, 'impl': o[0], 'model': model_answer(chk, terms[0]) if 0 in terms else 'n/a',
                                   'problems': f.get(0, failing[i])[:5], 'theorem': THEOREM, 'failing_cases_total': len(failing)},
                             what=f'{sig}: {f.get(0, failing[i])[0]} | ids={json.dumps(small.get("ids", small.get("source")))} edges={json.dumps(small.get("edges"))}'[:900])


def replay(chk, path):
    rp = json.loads(open(path).read())
    cases = rp['cases'] if 'cases' in rp else [rp['case']]
    for case in cases:
        terms, obs, f = evaluate(chk, [case], tag='replay')
        chk.note_case(case)
        log('impl now :', json.dumps(obs[0])[:1500])
        log('model    :', model_answer(chk, terms[0]) if 0 in terms else 'n/a')
        log('problems :', f.get(0, []))
        if f:
            chk.report_violation(rp.get('signature', 'C13:replay'), {'case': case, 'impl': obs[0], 'problems': f[0]}, what='replayed case still fails')
