"""Fail-closed translator  src/hpotk/model/_term_id.py  ->  Gallina  (second tie for C04, besides the behavioural one).

TermId.from_curie, value, __eq__, __lt__, __hash__ / _calculate_hash and the prefix / id / __init__ / __hash__ of
DefaultTermId and SimpleTermId are one-expression methods; they are read off the Python AST by a small expression
translator (names, attributes of self / other, string literals, + on str, == and < on str, `and`, the slices
x[:e] and x[e + 1:], isinstance(other, TermId), hash((a, b))) and a statement matcher for the try / except ladder of
from_curie.  Anything else raises TranslateError.  The emitted file defines *_src versions and proves each equal to
the hand-written model (TermId.Model) the C04 theorems are about."""
import ast

from translate_io import TranslateError, fail, cstr, is_name, is_attr, func, body_without_docstring, const


def cls(tree, name):
    for n in tree.body:
        if isinstance(n, ast.ClassDef) and n.name == name:
            return n
    raise TranslateError(f'class {name} not found')


def method(c, name):
    for n in c.body:
        if isinstance(n, ast.FunctionDef) and n.name == name:
            return n
    raise TranslateError(f'{c.name}.{name} not found')


def single_return(fn):
    b = body_without_docstring(fn)
    if len(b) != 1 or not isinstance(b[0], ast.Return) or b[0].value is None:
        fail(fn, f'{fn.name}: expected a single return statement')
    return b[0].value


class Expr:
    """expression translator; env maps Python names / attributes to Gallina terms"""
    def __init__(self, env):
        self.env = env

    def tr(self, e):
        if isinstance(e, ast.Constant) and isinstance(e.value, str):
            return cstr(e.value)
        if isinstance(e, ast.Name):
            if e.id in self.env:
                return self.env[e.id]
            fail(e, f'unknown name {e.id}')
        if isinstance(e, ast.Attribute) and isinstance(e.value, ast.Name):
            k = e.value.id + '.' + e.attr
            if k in self.env:
                return self.env[k]
            fail(e, f'unknown attribute {k}')
        if isinstance(e, ast.BinOp) and isinstance(e.op, ast.Add):
            return f'({self.tr(e.left)} ++ {self.tr(e.right)})'
        if isinstance(e, ast.Compare) and len(e.ops) == 1:
            a, b = self.tr(e.left), self.tr(e.comparators[0])
            if isinstance(e.ops[0], ast.Eq):
                return f'(seqb {a} {b})'
            if isinstance(e.ops[0], ast.Lt):
                return f'(sltb {a} {b})'
            fail(e, 'unsupported comparison')
        if isinstance(e, ast.BoolOp) and isinstance(e.op, ast.And):
            parts = [self.tr(v) for v in e.values]
            parts = [p for p in parts if p != 'true']
            return '(' + ' && '.join(parts) + ')' if parts else 'true'
        if isinstance(e, ast.Call) and is_name(e.func, 'isinstance') and len(e.args) == 2 and is_name(e.args[0], 'other') and is_name(e.args[1], 'TermId'):
            return 'true'                                   # the model's second argument IS a term id
        if isinstance(e, ast.Call) and is_name(e.func, 'hash') and len(e.args) == 1 and isinstance(e.args[0], ast.Tuple) and len(e.args[0].elts) == 2:
            return f'(H {self.tr(e.args[0].elts[0])} {self.tr(e.args[0].elts[1])})'
        if isinstance(e, ast.Subscript) and isinstance(e.slice, ast.Slice) and e.slice.step is None:
            base = self.tr(e.value)
            lo, hi = e.slice.lower, e.slice.upper
            if lo is None and hi is not None:
                return f'(sfirstn {self.nat(hi)} {base})'
            if hi is None and lo is not None:
                return f'(sskipn {self.nat(lo)} {base})'
            fail(e, 'unsupported slice')
        fail(e, 'unsupported expression ' + type(e).__name__)

    def nat(self, e):
        if isinstance(e, ast.BinOp) and isinstance(e.op, ast.Add) and isinstance(e.right, ast.Constant) and e.right.value == 1:
            return f'(S {self.nat(e.left)})'
        if isinstance(e, (ast.Name, ast.Attribute)):
            return self.tr(e)
        fail(e, 'unsupported index expression')


def char_lit(e):
    v = const(e)
    if not (isinstance(v, str) and len(v) == 1):
        fail(e, 'expected a one-character str literal')
    return cstr(v) + '%char'


def index_call(e, var):
    """curie.index(L) -> L"""
    if not (isinstance(e, ast.Call) and isinstance(e.func, ast.Attribute) and e.func.attr == 'index' and is_name(e.func.value, var)
            and len(e.args) == 1 and not e.keywords):
        fail(e, f'expected {var}.index(<char>)')
    return char_lit(e.args[0])


def from_curie(fn):
    """None check; try: idx = curie.index(A) except ValueError: try: idx = curie.index(B) except ValueError: raise ValueError; return DefaultTermId(idx=idx, value=curie)"""
    var = fn.args.args[0].arg
    b = body_without_docstring(fn)
    if len(b) != 3:
        fail(fn, 'from_curie: expected the None check, the try / except ladder and the return')
    g, t, r = b
    if not (isinstance(g, ast.If) and isinstance(g.test, ast.Compare) and is_name(g.test.left, var) and isinstance(g.test.ops[0], ast.Is)
            and isinstance(g.test.comparators[0], ast.Constant) and g.test.comparators[0].value is None
            and len(g.body) == 1 and isinstance(g.body[0], ast.Raise) and not g.orelse):
        fail(g, 'from_curie: expected `if curie is None: raise ValueError`')

    def ladder(node):
        if not (isinstance(node, ast.Try) and len(node.body) == 1 and isinstance(node.body[0], ast.Assign) and is_name(node.body[0].targets[0], 'idx')
                and len(node.handlers) == 1 and is_name(node.handlers[0].type, 'ValueError') and not node.orelse and not node.finalbody):
            fail(node, 'from_curie: expected try: idx = curie.index(..) except ValueError: ...')
        ch = index_call(node.body[0].value, var)
        h = node.handlers[0].body
        if len(h) == 1 and isinstance(h[0], ast.Raise) and isinstance(h[0].exc, ast.Call) and is_name(h[0].exc.func, 'ValueError'):
            return [ch]
        if len(h) == 1 and isinstance(h[0], ast.Try):
            return [ch] + ladder(h[0])
        fail(node, 'from_curie: the except branch must retry with another delimiter or raise ValueError')
    chars = ladder(t)
    if not (isinstance(r, ast.Return) and isinstance(r.value, ast.Call) and is_name(r.value.func, 'DefaultTermId') and not r.value.args
            and sorted(k.arg for k in r.value.keywords) == ['idx', 'value']
            and all((k.arg == 'idx' and is_name(k.value, 'idx')) or (k.arg == 'value' and is_name(k.value, var)) for k in r.value.keywords)):
        fail(r, 'from_curie: expected return DefaultTermId(idx=idx, value=curie)')
    out = 'Err ValueError'
    for ch in reversed(chars):
        out = f'match sindex {ch} s with Some i => Ok (mkTid s i) | None => {out} end'
    return out


def lt_body(fn, ex):
    """if isinstance(other, TermId): if self.prefix == other.prefix: return self.id < other.id else: return self.prefix < other.prefix else: return NotImplemented"""
    b = body_without_docstring(fn)
    if not (len(b) == 1 and isinstance(b[0], ast.If) and ex.tr(b[0].test) == 'true' and len(b[0].body) == 1 and isinstance(b[0].body[0], ast.If)
            and len(b[0].orelse) == 1 and isinstance(b[0].orelse[0], ast.Return) and is_name(b[0].orelse[0].value, 'NotImplemented')):
        fail(fn, '__lt__: unexpected shape')
    i = b[0].body[0]
    if not (len(i.body) == 1 and isinstance(i.body[0], ast.Return) and len(i.orelse) == 1 and isinstance(i.orelse[0], ast.Return)):
        fail(i, '__lt__: both alternatives must be a single return')
    return f'if {ex.tr(i.test)} then {ex.tr(i.body[0].value)} else {ex.tr(i.orelse[0].value)}'


def concrete(c):
    """prefix / id / __init__ / __hash__ of DefaultTermId or SimpleTermId -> (prefix expr, id expr, hash expr or None)"""
    init = method(c, '__init__')
    names = [a.arg for a in init.args.args]
    if names != ['self', 'value', 'idx']:
        fail(init, f'{c.name}.__init__(self, value, idx) expected')
    assigns = {}
    for s in body_without_docstring(init):
        if not (isinstance(s, ast.Assign) and len(s.targets) == 1 and isinstance(s.targets[0], ast.Attribute) and is_name(s.targets[0].value, 'self')):
            fail(s, f'{c.name}.__init__: only assignments to self attributes')
        assigns[s.targets[0].attr] = s.value
    if not (is_name(assigns.get('_value'), 'value') and is_name(assigns.get('_idx'), 'idx')):
        fail(init, f'{c.name}.__init__ must store value and idx')
    ex = Expr({'self._value': '(tvalue t)', 'self._idx': '(tidx t)'})
    p = ex.tr(single_return(method(c, 'prefix')))
    i = ex.tr(single_return(method(c, 'id')))
    h = None
    if '_hash' in assigns:
        v = assigns['_hash']
        if not (isinstance(v, ast.Call) and is_attr(v.func, 'self', '_calculate_hash') and not v.args and sorted(k.arg for k in v.keywords) == ['id', 'prefix']):
            fail(v, f'{c.name}: expected self._hash = self._calculate_hash(prefix=.., id=..)')
        ex2 = Expr({'value': '(tvalue t)', 'idx': '(tidx t)'})
        kw = {k.arg: ex2.tr(k.value) for k in v.keywords}
        hm = single_return(method(c, '__hash__'))
        if not is_attr(hm, 'self', '_hash'):
            fail(hm, f'{c.name}.__hash__ must return self._hash')
        h = (kw['prefix'], kw['id'])
    extra = set(assigns) - {'_value', '_idx', '_hash'}
    if extra:
        fail(init, f'{c.name}.__init__ stores unknown attributes {sorted(extra)}')
    return p, i, h


def translate(path):
    tree = ast.parse(open(path, encoding='utf-8').read())
    T = cls(tree, 'TermId')
    fc = from_curie(method(T, 'from_curie'))
    pe = Expr({'self.prefix': '(prefix t)', 'self.id': '(ident t)', 'other.prefix': '(prefix u)', 'other.id': '(ident u)'})
    val = pe.tr(single_return(method(T, 'value')))
    eq = pe.tr(single_return(method(T, '__eq__')))
    lt = lt_body(method(T, '__lt__'), pe)
    ch = method(T, '_calculate_hash')
    if [a.arg for a in ch.args.args] != ['prefix', 'id']:
        fail(ch, '_calculate_hash(prefix, id) expected')
    hexpr = Expr({'prefix': 'p', 'id': 'i'}).tr(single_return(ch))
    hm = single_return(method(T, '__hash__'))
    if not (isinstance(hm, ast.Call) and is_attr(hm.func, 'self', '_calculate_hash') and len(hm.args) == 2 and is_attr(hm.args[0], 'self', 'prefix') and is_attr(hm.args[1], 'self', 'id')):
        fail(hm, 'TermId.__hash__ must return self._calculate_hash(self.prefix, self.id)')
    dp, di, dh = concrete(cls(tree, 'DefaultTermId'))
    sp, si, sh = concrete(cls(tree, 'SimpleTermId'))
    if dh is None or sh is not None:
        fail(None, 'DefaultTermId must cache its hash and SimpleTermId must not')
    for c in ('DefaultTermId', 'SimpleTermId'):          # no overrides of the methods the model reads from the base class
        over = {n.name for n in cls(tree, c).body if isinstance(n, ast.FunctionDef)} - {'__init__', 'prefix', 'id', '__repr__', '__hash__'}
        if over:
            fail(None, f'{c} overrides {sorted(over)}')
    if any(isinstance(n, ast.FunctionDef) and n.name == '__hash__' for n in cls(tree, 'SimpleTermId').body):
        fail(None, 'SimpleTermId must inherit __hash__')
    return f'''(* GENERATED by harness/translate_termid.py from {path} - do not edit *)
From Coq Require Import String Ascii List Bool Arith ZArith.
From Hpotk Require Import Base.Result Base.Str TermId.Model.
Open Scope string_scope.

Definition from_curie_src (s : string) : res tid := {fc}.
Definition default_prefix_src (t : tid) : string := {dp}.
Definition default_id_src (t : tid) : string := {di}.
Definition simple_prefix_src (t : tid) : string := {sp}.
Definition simple_id_src (t : tid) : string := {si}.
Definition value_src (t : tid) : string := {val}.
Definition eq_src (t u : tid) : bool := {eq}.
Definition lt_src (t u : tid) : bool := {lt}.
Section H.
Variable H : string -> string -> Z.
Definition calculate_hash_src (p i : string) : Z := {hexpr}.
Definition default_hash_src (t : tid) : Z := calculate_hash_src {dh[0]} {dh[1]}.
Definition simple_hash_src (t : tid) : Z := calculate_hash_src (prefix t) (ident t).
End H.

(* what the source says IS the model the C04 theorems are about *)
Lemma from_curie_src_ok : forall s, from_curie_src s = from_curie s.
Proof. intro s. unfold from_curie_src, from_curie, colon, underscore. reflexivity. Qed.
Lemma accessors_src_ok : forall t, default_prefix_src t = prefix t /\\ default_id_src t = ident t /\\ simple_prefix_src t = prefix t /\\ simple_id_src t = ident t.
Proof. intro t. repeat split; reflexivity. Qed.
Lemma value_src_ok : forall t, value_src t = value t.
Proof.
  intro t. unfold value_src, value. generalize (prefix t) (ident t). intros p i.
  first [reflexivity | induction p as [|c p IH]; cbn [append]; [reflexivity | f_equal; exact IH]].
Qed.
Lemma eq_src_ok : forall t u, eq_src t u = teqb t u.
Proof. intros t u. reflexivity. Qed.
Lemma lt_src_ok : forall t u, lt_src t u = tltb t u.
Proof. intros t u. reflexivity. Qed.
Lemma hash_src_ok : forall (H : string -> string -> Z) t, default_hash_src H t = thash H DefaultCls t /\\ simple_hash_src H t = thash H SimpleCls t.
Proof. intros H t. split; reflexivity. Qed.
'''


if __name__ == '__main__':
    import sys
    print(translate(sys.argv[1]))
