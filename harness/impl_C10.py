"""Observation of precalculate_ic_mica_for_hpo_concept_pairs (C10)."""
import warnings

warnings.simplefilter('ignore')

from hpotk.model import TermId, MinimalTerm  # noqa: E402
from hpotk.ontology import create_minimal_ontology  # noqa: E402
from hpotk.algorithm.similarity import precalculate_ic_mica_for_hpo_concept_pairs  # noqa: E402
from hpotk.algorithm.similarity._model import SimpleAnnotationIcContainer  # noqa: E402

from impl_graph import FACTORIES, exn_name  # noqa: E402

SCALE = 8


def z(v):
    w = float(v) * SCALE
    assert w == int(w), v
    return int(w)


def observe_case(case):
    edges = [(TermId.from_curie(s), TermId.from_curie(o)) for s, o in case['edges']]
    g = FACTORIES[case['factory']]().create_graph(edges)
    terms = [MinimalTerm.create_minimal_term(t, 'n', [], False) for t in g]
    hpo = create_minimal_ontology(g, terms, 'v1')
    ic = SimpleAnnotationIcContainer({TermId.from_curie(k): v / SCALE for k, v in case['ic']}, metadata={'m': 'x'})
    if len(case['edges']) % 2 == 0:
        # the ontology has been used before: module-level helpers called on it with BOTH include_source values, in both orders
        import hpotk.algorithm as alg
        for k, t in enumerate(g):
            for inc in ((False, True) if k % 2 == 0 else (True, False)):
                set(alg.get_ancestors(hpo, t, include_source=inc))
                set(alg.get_descendants(hpo, t, include_source=inc))
    try:
        sim = precalculate_ic_mica_for_hpo_concept_pairs(ic, hpo)
    except Exception as e:
        return {'err': exn_name(e)}
    nodes = sorted(t.value for t in g)
    reads = [[a, b, z(sim.get_similarity(a, b))] for a in nodes for b in nodes]
    # a second pass must not have created slots
    items = sorted([a, b, z(v)] for a, b, v in sim.items())
    return {'ok': {'reads': reads, 'len': len(sim), 'items': items}}


def observe(payload):
    res = []
    for case in payload['cases']:
        try:
            res.append(observe_case(case))
        except Exception as e:
            res.append({'crash': exn_name(e) + ': ' + str(e)[:300]})
    return {'cases': res}
