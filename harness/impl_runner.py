"""Runs inside a fresh interpreter with PYTHONPATH=$VERIF_REPO/src: imports the implementation
observer `impl_<name>` and writes its JSON observation.  Refuses to run against any copy of hpotk
other than the one under $VERIF_REPO/src (the current working tree)."""
import importlib
import json
import os
import sys

sys.path.insert(0, os.path.dirname(os.path.abspath(__file__)))


def main():
    name, inp, outp = sys.argv[1:4]
    import hpotk
    want = os.path.realpath(os.path.join(os.environ['VERIF_REPO'], 'src'))
    got = os.path.realpath(os.path.dirname(os.path.dirname(hpotk.__file__)))
    if got != want:
        print(f'hpotk imported from {got}, expected {want}', file=sys.stderr)
        sys.exit(97)
    mod = importlib.import_module('impl_' + name)
    with open(inp) as fh:
        payload = json.load(fh)
    res = mod.observe(payload)
    with open(outp + '.tmp', 'w') as fh:
        json.dump(res, fh)
    os.replace(outp + '.tmp', outp)


if __name__ == '__main__':
    main()
