"""Self-validation against seeded property-breaking changes (DESIGN §8a).

  harness/seeded_run.py [--confirm] [--check] [--tier quick] <seeded-id> ...

For each /verif/seeded/<id>/ (patch.diff, demo.py, meta.json):
  --confirm : in a scratch worktree of /repo (under /tmp, removed afterwards) confirm that the patch applies, the
              pinned test-suite still passes exactly as on the unchanged tree (same passed set size, no new failure),
              demo.py exits 0 on the unchanged tree and non-zero with the patch.
  --check   : run `./check <property>` with VERIF_REPO pointing at that patched scratch worktree and record whether a
              VIOLATION was raised (and its replay).
Results are written into seeded/<id>/meta.json under "confirmed" / "detected".  Nothing is ever applied to /repo.
"""
import argparse
import json
import os
import re
import shutil
import subprocess
import sys
from pathlib import Path

VERIF = Path(__file__).resolve().parent.parent
REPO = '/repo'
PY = '/venv/bin/python'
NET_DOCTESTS = ['docs/user-guide/load-hpo-annotations.rst', 'docs/user-guide/load-ontology.rst',
                'docs/user-guide/use-ontology.rst', 'src/hpotk/store/__init__.py']


def sh(cmd, **kw):
    return subprocess.run(cmd, shell=True, capture_output=True, text=True, **kw)


def pytest_counts(tree):
    env = dict(os.environ, PYTHONPATH=f'{tree}/src', PYTHONDONTWRITEBYTECODE='1')
    env.pop('HPOTK_VERIF', None)
    r = sh(f'cd {tree} && {PY} -m pytest -q -p no:cacheprovider --timeout=900 --continue-on-collection-errors 2>&1 | tail -15', env=env)
    tail = r.stdout
    m = re.search(r'(?:(\d+) failed, )?(\d+) passed', tail)
    failed = int(m.group(1) or 0) if m else -1
    passed = int(m.group(2)) if m else -1
    failing = sorted(set(re.findall(r'^FAILED (\S+)', tail, re.M)))
    return passed, failed, failing, tail[-600:]


def main():
    ap = argparse.ArgumentParser()
    ap.add_argument('ids', nargs='+')
    ap.add_argument('--confirm', action='store_true')
    ap.add_argument('--check', action='store_true')
    ap.add_argument('--tier', default='quick')
    args = ap.parse_args()
    rc = 0
    for sid in args.ids:
        d = VERIF / 'seeded' / sid
        meta = json.loads((d / 'meta.json').read_text())
        pid = meta['property']
        wt = f'/tmp/seedwt-{sid}-{os.getpid()}'        # unique: several runs may be going on (another snapshot of /verif)
        sh(f'git -C {REPO} worktree remove --force {wt}')
        r = sh(f'git -C {REPO} worktree add --detach {wt} HEAD')
        if r.returncode != 0:
            print(sid, 'cannot create worktree', r.stderr)
            rc = 1
            continue
        try:
            r = sh(f'git -C {wt} apply {d}/patch.diff')
            if r.returncode != 0:
                print(sid, 'PATCH DOES NOT APPLY', r.stderr[-300:])
                meta['confirmed'] = {'applies': False, 'repo_head': sh(f'git -C {REPO} rev-parse --short HEAD').stdout.strip()}
                rc = 1
                (d / 'meta.json').write_text(json.dumps(meta, indent=1))
                continue
            if args.confirm:
                base = getattr(main, '_base', None)
                if base is None:
                    base = main._base = pytest_counts(REPO)
                p, f, failing, tail = pytest_counts(wt)
                env0 = dict(os.environ, PYTHONPATH=f'{REPO}/src', PYTHONDONTWRITEBYTECODE='1')
                env1 = dict(os.environ, PYTHONPATH=f'{wt}/src', PYTHONDONTWRITEBYTECODE='1')
                demo = f'{d}/demo.py'
                if meta.get('kind') == 'refactor':      # these scripts locate the repository's test data relative to their own place in the worktree
                    os.makedirs(f'{wt}/seeded_out', exist_ok=True)
                    shutil.copy(demo, f'{wt}/seeded_out/demo.py')
                    demo = f'{wt}/seeded_out/demo.py'
                d0 = sh(f'cd /tmp && timeout 900 {PY} {demo}', env=env0)
                d1 = sh(f'cd /tmp && timeout 900 {PY} {demo}', env=env1)
                if meta.get('kind') == 'refactor':      # a behaviour-preserving rewrite: the differential script prints the same digest on both trees
                    ok = (p == base[0] and f == base[1] and failing == base[2] and d0.returncode == 0 and d1.returncode == 0 and d0.stdout == d1.stdout)
                else:
                    ok = (p == base[0] and f == base[1] and failing == base[2] and d0.returncode == 0 and d1.returncode != 0)
                meta['confirmed'] = {
                    'applies': True, 'repo_head': sh(f'git -C {REPO} rev-parse --short HEAD').stdout.strip(),
                    'suite_unchanged_tree': {'passed': base[0], 'failed': base[1], 'failing': base[2]},
                    'suite_with_patch': {'passed': p, 'failed': f, 'failing': failing},
                    'note': 'the failing doctests need network (URLError) and fail identically on the unchanged tree; they are not in the pinned stable_pass set',
                    'demo_exit_unchanged': d0.returncode, 'demo_exit_patched': d1.returncode,
                    'demo_output_patched': (d1.stdout + d1.stderr)[-400:], 'ok': ok,
                }
                print(sid, 'confirm:', 'OK' if ok else 'NOT CONFIRMED', f'suite {p} passed / {f} failed (base {base[0]}/{base[1]}) demo {d0.returncode}->{d1.returncode}')
                if not ok:
                    rc = 1
            if args.check:
                env = dict(os.environ, VERIF_REPO=wt)
                r = sh(f'cd {VERIF} && timeout 3000 ./check {pid} --tier {args.tier}', env=env)
                out = r.stdout + r.stderr
                viol = re.findall(r'^VIOLATION property=(\S+) replay=(\S+)(.*)$', out, re.M)
                replays = []
                for _, rp, tail in viol[:3]:
                    try:
                        j = json.loads(Path(rp).read_text())
                        replays.append({'replay': os.path.basename(rp), 'signature': j.get('signature'), 'what': (j.get('what') or '')[:400],
                                        'no_failing_input_found': 'no-failing-input-found' in tail})
                    except Exception as e:  # noqa
                        replays.append({'replay': rp, 'error': str(e)})
                meta['detected'] = {'check': f'./check {pid} --tier {args.tier} (VERIF_REPO=patched scratch worktree)', 'seed': int(os.environ.get('VERIF_SEED', '0') or 0), 'exit': r.returncode,
                                    'violation': bool(viol), 'replays': replays, 'tail': out[-300:] if not viol else ''}
                if meta.get('kind') == 'refactor':
                    # the property still holds: the check must stay quiet, or report a broken tie and nothing else
                    concrete = [v for v in viol if 'no-failing-input-found' not in v[2]]
                    verdict = 'QUIET' if r.returncode == 0 and not viol else 'TIE-BROKEN (no-failing-input-found only)' if not concrete else 'FALSE ALARM'
                    meta['detected']['refactor_verdict'] = verdict
                    print(sid, 'check:', verdict, [x.get('signature') for x in replays])
                else:
                    print(sid, 'check:', 'DETECTED' if viol and r.returncode == 1 else 'MISSED', [x.get('signature') for x in replays])
            (d / 'meta.json').write_text(json.dumps(meta, indent=1))
        finally:
            sh(f'git -C {REPO} worktree remove --force {wt}')
            shutil.rmtree(wt, ignore_errors=True)
            for w in (Path(__file__).resolve().parent.parent / 'work').glob('*-_tmp_seedwt_*'):
                if w.name.endswith(sid.replace('-', '_') + '_' + str(os.getpid())):
                    shutil.rmtree(w, ignore_errors=True)
    sys.exit(rc)


if __name__ == '__main__':
    main()
