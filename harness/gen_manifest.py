"""Regenerates /verif/MANIFEST.json from the table below (kept in one place so it stays valid)."""
import json
import os
import sys

VERIF = os.path.dirname(os.path.dirname(os.path.abspath(__file__)))

# pid -> (technique, level text, level_note, design_ref)
CHECKS = {
    'C01': (
        'Coq proof (worklist invariant for any pop policy; CSR rows of all three factory models characterised; end-to-end query spec) + per-run vm_compute correspondence with src/hpotk/graph/*.py',
        'Machine-checked theorems for EVERY non-empty acyclic edge list, every shipped factory (model of CsrIndexedGraphFactory, IncrementalCsrGraphFactory, '
        'CsrGraphFactory incl. root finding, node sorting, bisect/dict lookup, edge grouping with the last-subject cache, CSR assembly, the matrix builder), '
        'every node, every argument form and both flags: the factory succeeds and get_parents/children/ancestors/descendants return, each node exactly once, '
        'exactly the is_a objects/subjects resp. the nodes reachable over >= 1 is_a edges up/down (clos_trans), and include_source adds the source exactly once '
        'and nothing else. The stack DFS and deque BFS are instances of one worklist theorem proved for any pop policy. Correspondence: all 542 acyclic edge sets '
        'on 4 positions x 2 label pools + random shape families (30% with edges listed again anywhere in the list), dense graphs with > 255 edges, 3 real factories, every node/query/flag as TermId and once more in another argument form (CURIE with either delimiter, identified object, user-defined TermId subclass); plus a scale probe (~70 000 edges) compared directly with the closure.',
        'Trusted: Coq kernel + vm_compute; numpy arrays, dict/bisect lookup, deque/list buffers, generator laziness modelled functionally; TermId nodes '
        'represented by (prefix,id) keys (C04). Hypothesis: owl:Thing is not itself an input term. The model contains the de-duplication of repeated edges '
        'introduced by the fix: commit 8229d06.',
        '§4 C01'),
    'C02': (
        'Coq proof (root finding, node extraction, edge-set invariance via canonical sort_unique and the C01 characterisation) + per-run vm_compute correspondence with src/hpotk/graph/_factory.py',
        'Machine-checked theorems for every acyclic edge list and every factory: nodes = exactly the mentioned terms, each once (sorted), plus owl:Thing iff '
        '>= 2 parentless terms; root = the single parentless term or owl:Thing whose children are exactly the parentless terms; root has no parents; every '
        'other node reaches the root; ANY two edge lists with the same edge set (all permutations and all multisets of repeats at once) give equal node '
        'lists, equal roots and equal answers to every query/predicate/leaf/membership call (queries as multisets), across factories; inputs without a '
        'parentless term are rejected with ValueError. Correspondence: every C01 graph rebuilt from shuffled / reversed / repeated-edge / grouped-by-object '
        'variants, 1..4 roots, a dense graph (> 255 edges on 24 nodes, every node queried), all three real factories.',
        'Trusted: as C01; Python set iteration order of root candidates is modelled by a sorted list (proved irrelevant). Repeated edges: genuine defect '
        'fixed in /repo (fix: 8229d06).',
        '§4 C02'),
    'C03': (
        'Coq proof (agreement of the three factory models and two graph-class models, predicates = membership, converse, index bijection, index API mirror, argument forms) + per-run vm_compute correspondence',
        'Machine-checked theorems for every acyclic edge list: all three factories answer every query (as a set), predicate, leaf and membership call '
        'identically; is_*_of(sub,obj) is true exactly when the traversal of obj contains sub, is_leaf exactly when there are no children, so parent/child and '
        'ancestor/descendant are converse; node_to_idx/idx_to_node are inverse bijections between nodes and 0..n-1, root_idx maps to the root; every *_idx '
        'query/predicate equals the node API through that bijection; str / TermId / Identified arguments give identical results. Correspondence: all ordered '
        'pairs of nodes x 5 predicates x 3 factories x 5 argument forms (CURIE, TermId, a user-defined TermId subclass, identified objects carrying either) and the full index API on every small graph; a dense graph (> 255 edges on 24 nodes).',
        'Trusted: as C01. __contains__ is exercised with TermId operands (its declared signature); the index API exists on the indexed graph only.',
        '§4 C03'),
    'C14': (
        'Coq proof (every error path of the node and index API of both graph-class models) + per-run vm_compute correspondence with boundary integers and absent / malformed arguments',
        'Machine-checked theorems for every graph built from an acyclic edge list: an absent term id raises ValueError in all traversals and is_leaf, in '
        'is_*_of as object, gives False as subject, membership False, node_to_idx None; non-CURIE strings and non-node objects raise ValueError in every '
        'method; EVERY integer outside 0..n-1 (negative included, unbounded Z) raises ValueError in get_*_idx and idx_to_node; for is_*_of_idx an out-of-range '
        'walked index raises ValueError and an out-of-range other index never yields True. Correspondence: absent ids before/between/after/foreign prefix, '
        'look-alikes of present ids (other zero padding, sign, blanks, digit separators, full-width digits, other prefix case), every query also asked for its first item only, malformed values, integers {-n-2..-1, n..n+2, 10^6, 2^63} and numpy ints on every method of both graph classes.',
        'Trusted: as C01; numpy integer indexing modelled by explicit range checks. Off-by-one row check and negative idx_to_node: genuine defect fixed in '
        '/repo (fix: 929e410). Reading of the two-index predicates fixed in DESIGN §4 C14.',
        '§4 C14'),
    'C04': (
        'Coq proof over a Gallina model of TermId + per-run translation of the TermId methods from src/hpotk/model/_term_id.py into Gallina proved equal to the model + per-run vm_compute correspondence with the implementation',
        'Machine-checked theorems (all strings, all term ids, no bound): parse succeeds iff a delimiter is present and splits at the '
        'first colon else first underscore; value re-parses to an equal id; == is equality of (prefix,id); equal ids hash equally '
        'across both classes; < is a strict total lexicographic order; parsing does not normalise (equal ids = same text up to the delimiter character); sort+dedupe is canonical and the bisect loop finds exactly '
        'the present ids. The model is tied to the code by differential execution on every run (exhaustive small alphabet + random unicode + HPO-shaped ids against their look-alikes: zero padding, sign, blanks, digit separators, full-width digits, prefix case).',
        'Trusted: Coq kernel + vm_compute; hash((prefix,id)) abstracted as a function of the two strings; numpy.unique/bisect modelled; '
        'harness rendering. idx >= 0 for directly constructed ids; no lone surrogates.',
        '§4 C04'),
    'C17': (
        'Coq proof (refinement of the CSR builder to a dense map, by induction over assignment histories) + per-run vm_compute correspondence with src/hpotk/graph/csr/_csr.py',
        'Machine-checked theorems for every shape, every value type with a zero and EVERY history of assignments: the builder keeps a valid '
        'sorted CSR and denotes the last-write-wins dense matrix (builder_refines_dense); for any valid CSR triple (sorted or not) cell, row and '
        'value->columns reads equal the dense matrix, each column once; any coordinate outside the shape (negative included) raises. '
        'Correspondence: all assignment sequences of length <=3 (quick) / <=4 (thorough) on a 2x3 matrix, degenerate shapes, random histories '
        'and hand-built CSR triples (incl. matrices with more than 255 stored cells), with every cell/row/value query and every coordinate of the whole wrap-around window read back from the real classes; matrices frozen from the builder in the middle of a history are read at once and again after the remaining assignments; plus a scale probe beyond the 16-bit boundary (~68 000 stored cells) compared directly with the dense matrix.',
        'Trusted: Coq kernel + vm_compute; numpy slicing / fancy assignment / masks and deque.insert modelled functionally; dtype values rendered '
        'as integers (exact). Error class is compared only as error-vs-value (the property does not fix it). NZ hypothesis = assignments of non-zero values, as the property states.',
        '§4 C17'),
    'C05': (
        'Coq proof (extract_terms = map over the retained nodes; edge list = is_a edges between retained nodes; ignored nodes; minimal/full agreement; order irrelevance) over a document-level model + per-run vm_compute correspondence on rendered JSON files',
        'Machine-checked theorems for every parsed document: the current terms of the loaded ontology are exactly the non-deprecated CLASS nodes whose id is '
        'an OBO PURL with a requested prefix, each built from its node alone (id, name, alternate ids, obsolescence; for the full loader definition, joined '
        'comments, synonyms with category/type, xrefs); the extracted hierarchy contains exactly the is_a edges whose two endpoints are retained nodes '
        '(deprecated or not) - other predicates, dangling and foreign edges are ignored; non-retained nodes do not influence anything; the minimal and the '
        'full loader agree on id, name, alternate ids, obsolescence; permuting nodes and edges gives the same current terms and the same edge set (hence, '
        'by C02, the same graph). Version: examples for both encodings. Correspondence: generated documents (all node types, deprecated absent/true/false, '
        'every optional meta part, 12 synonymType spellings, odd PURLs, 5 kinds of ignorable edges, 3 version encodings) through both loaders, all '
        'factories and the shared defaults, also shuffled - the whole flattened ontology is compared; plus a 150-term document with > 255 is_a edges through the default factories, the parents / children compared with the document directly.',
        'Trusted: Coq kernel + vm_compute; json.load; regexes modelled as ASCII string functions (paper argument for the greedy match, validated on odd ids); '
        'graph = C01/C02 model, container = C06 model. "deprecated": false made terms obsolete: genuine defect fixed in /repo (fix: a5a2d3d).',
        '§4 C05'),
    'C06': (
        'Coq proof (dict-semantics id map = last term carrying the id; unconditional never-obsolete; lookup spec under disjoint ids; key listing) + per-run vm_compute correspondence with src/hpotk/ontology/_default.py, _api.py',
        'Machine-checked theorems for every term collection and a term type generic in its payload (so for the minimal AND the full ontology): len / terms '
        'are exactly the non-obsolete terms in input order; NO lookup ever returns an obsolete term and whatever is returned carries the queried id '
        '(unconditional); with a disjoint id assignment a lookup of a primary or alternate id in any of the three argument forms returns exactly that current '
        'term and any other id None; `in` is true iff the lookup succeeds; term_ids lists exactly the primary and alternate ids of current terms, each once, '
        'and exactly these resolve; other argument kinds raise ValueError. Correspondence: random collections incl. obsolete terms with alternate ids, ids '
        'shared between obsolete and current terms, clashing ids, look-alikes of known ids as absent ids, both ontology kinds, all query forms (incl. a user-defined TermId subclass), identity of the returned object; the sequence the ontology was created from is edited by the caller afterwards.',
        'Trusted: Coq kernel + vm_compute; dict modelled as association list with in-place overwrite; object identity rendered as list position.',
        '§4 C06'),
    'C07': (
        'Coq proof (state machine over the eight I/O boundaries of a load with any number of loaders, faults, kills and clears; inductive invariant; cache hit; recovery; latest tag; file names as strings) + per-run translation of the store\'s file-name expressions into Gallina proved equal to the model + per-run vm_compute correspondence against the real store driven boundary by boundary',
        'Machine-checked theorems about the store model: in EVERY reachable world - any number of concurrent loaders, any interleaving of their I/O boundaries '
        '(isfile, fetch, create temp, read, write, close, os.replace, load), any fault (fetch raises, read raises, write() fails after k bytes, the flush at close() fails after k bytes), a kill at any '
        'boundary, any clears in between - every cache location is absent or holds exactly the bytes the remote serves (never a prefix); a fetch happens only '
        'after an isfile that found the location absent; a complete copy is a cache hit (no fetch, nothing written, same ontology); whatever a load returns '
        'was parsed from exactly the served bytes; from every reachable world a fresh healthy load run alone succeeds and leaves a complete copy; the latest '
        'release is the greatest tag, no tag -> ValueError; clear(type) removes exactly that type, clear() everything; the file NAMES (<ID>/<id>.<release>.json, + .<random>.tmp) '
        'as strings: classification is a left inverse of both naming functions, so cache locations of different (type, release) never coincide and a temporary file is never a cache location; a tag re-published with other content: once the store (or that type) was cleared with no load in flight the invariant holds for the NEW remote, the next load fetches, stores and returns exactly the new bytes. Correspondence: all histories of '
        'length <= 2 over 13 operations x {absolute, relative} store + random ones, a kill before every boundary, all 2-loader interleavings with <= 2 '
        'preemptions (thorough: all 12870) with the store snapshot after every boundary, faulty / 3-loader races, repeated loads of one release with alternating loader options each compared with the direct load, a tag re-published with other content after clear and a tag served with zero bytes (both evaluated directly) - the RAW directory listing is classified inside Coq and compared with the model at every '
        'checkpoint, resolve_store_path is compared with final_name. PARTIAL: power-loss durability and non-POSIX rename are outside the model.',
        'Trusted: Coq kernel + vm_compute; os.replace atomic, mkstemp random parts unique (that a temporary name is never a cache location is proved in Store/Paths.v); boundaries '
        'intercepted by harness-side replacement of module attributes; GitHub services not modelled. Two genuine defects fixed in /repo (fix: 344b425 atomic '
        'publish, fix: c7445cc clear paths).',
        '§4 C07'),
    'C08': (
        'Coq proof (aggregation structure of the loader over parsed lines; sums invariant under line order; kernel-float sweeps of the frequency arithmetic lifted by forallb_forall) + per-run vm_compute correspondence on rendered HPOA files',
        'Machine-checked theorems for every list of parsed lines and loader configuration: exactly one disease per distinct database id; per disease exactly '
        'one annotation per distinct aspect-P phenotype whose numerator / denominator are the sums of the per-line counts and whose references / modifiers '
        'are the unions; aspect-I terms become the modes of inheritance, C/M ignored; 0 <= numerator, 0 < denominator; any rearrangement of the lines gives '
        'the same diseases, the same lines per (disease, phenotype) up to order, hence the same sums. With kernel primitive floats: for EVERY cohort size '
        '1..100000 each of the six HPO frequency terms gives round(frequency*cohort) in 0..cohort and inside the term\'s range scaled to the cohort (up to '
        'rounding), and for cohort 1..2000 each percentage 0, 0.5, .., 100 lands within 1/2 of p*cohort/100. PARTIAL: larger cohorts and other percentages '
        'are not proved. Correspondence: generated files (both header styles, all frequency forms, NOT/salvage, P/I/C/M, shuffled copies) compared with the '
        'model incl. the Python type of the modes of inheritance; HPO_FREQUENCIES compared bit for bit; two cases out of three go through a loader instance that has loaded other files before.',
        'Trusted: Coq kernel + vm_compute + primitive floats (PrimFloat/Uint63; no float axioms); Python round modelled as round-half-even; tab/; splitting '
        'exercised only through rendered files. Two genuine defects fixed in /repo (fix: bfb4b0c frequency precedence, fix: ef03442 modes of inheritance as str).',
        '§4 C08'),
    'C09': (
        'Coq proof (integer counts = number of present annotations at or below a term, one per annotation; monotone, order/excluded-independent; result keys incl. pseudocount; -log facts over R) + per-run correspondence (model counts evaluated in Coq, -log recomputed by the harness)',
        'Machine-checked theorems for every ontology graph built from an acyclic edge list, every corpus whose annotation ids are nodes, with or without a '
        'module: the count c(t) the result is computed from equals the number of present (module) annotations to t or to a descendant of t - exactly one '
        'increment per annotation however many paths lead to t; c never increases towards descendants; excluded annotations and any permutation of the '
        'items change no count; without pseudocounts a term is a key iff c(t) > 0, with pseudocounts every corpus term is a key with max(c,1); over the '
        'reals, for base > 1, -log_base(c/pop) is 0 at the root, non-negative, and antitone in c. PARTIAL (runtime arithmetic): the binary64 evaluation of '
        'math.log and / is not modelled - the correspondence recomputes -math.log(c/pop[, base]) from the model counts and compares every term IC, and '
        'asserts root = 0, IC >= 0 and monotonicity on the implementation floats.',
        'Trusted: as C01; Counter/set modelled as multiset/list; stub containers through the public ABCs. C09_ic_real depends on the stdlib axioms '
        'ClassicalDedekindReals.sig_forall_dec, sig_not_dec, FunctionalExtensionality.functional_extensionality_dep, Classical_Prop.classic (reals).',
        '§4 C09'),
    'C10': (
        'Coq proof (loop invariant of the pair loop over an abstract MICA function; MICA = declarative max over common ancestors via the proved helper/graph models; branch coverage) + per-run vm_compute correspondence with src/hpotk/algorithm/similarity/_resnik.py',
        'Machine-checked theorem for every ontology graph built from an acyclic edge list that contains HP:0000118 and EVERY information-content map '
        '(monotone or not, entries missing): the precomputation succeeds and for all terms a, b the stored similarity v satisfies v = sim(b,a), '
        '0 <= v <= m, v in {0, m}, and v = m whenever a and b lie below the same child of Phenotypic abnormality, where m = max(0, max IC over the common '
        'ancestors, each term its own ancestor) - a value proved unique and symmetric; every stored value is > 0 (all other pairs read 0). The pair loop is '
        'proved for any MICA function by a loop invariant over the C15 container model (terms shared between branches included). Without HP:0000118 the '
        'function raises ValueError. Correspondence: random multi-branch multi-parent ontologies x 6 kinds of IC maps, all ordered pairs read back, len, items.',
        'Trusted: as C01/C15/C18; IC values dyadic and embedded exactly in Z. Hypothesis: term-id prefixes contain no ":" (true of every parsed CURIE, C04).',
        '§4 C10'),
    'C11': (
        'Coq proof (sound+complete characterisation of each validator over the proved graph and id-map models, with multiplicity; runner = concatenation) + per-run vm_compute correspondence with src/hpotk/validate/*.py',
        'Machine-checked theorems for every graph built from an acyclic edge list, every ontology over it and every item sequence whose ids the ontology '
        'knows: the annotation-propagation validator reports an ERROR naming (d,a) exactly when - after replacing obsolete ids by current ones - some item '
        'carries d, a is a strict ancestor of d carried by some item, and d is present or both are excluded, exactly once per (item, offending ancestor id) '
        'and nothing else; the phenotypic-abnormality validator warns exactly for items whose current id is not a strict descendant of HP:0000118; the '
        'obsolete-id validator warns exactly for items whose id differs from its current id, which for disjoint ids means: uses an alternate id; the runner '
        'returns the concatenation and is_ok iff empty. Non-mutation of the caller\'s items is checked on the implementation (aliasing fact, not a theorem). '
        'Correspondence: exhaustive item sequences on a fixed ontology + random multi-parent ontologies, all item forms, all validator combinations, the runner built from a list / tuple / generator / map object by turns.',
        'Trusted: as C01 and C06; message wording parsed by the harness (CURIEs in brackets, state word).',
        '§4 C11'),
    'C12': (
        'Coq proof (lazy iterator = one round of the proved worklist loop per next(); draining refines the eager traversal; non-interference over all histories of opening / advancing iterators) + per-run exploration of histories, interleavings, reader threads and repeated loads on the implementation, with the interleaved yields checked against the graph model in Coq',
        'Machine-checked theorems, for any successor function and pop policy (so for the stack iterator of the indexed graph and the deque iterator of the '
        'matrix graph, both instantiated): draining a lazily evaluated traversal iterator yields exactly the eager traversal list that C01/C03 characterise; a '
        'partially consumed iterator has yielded a prefix of it; for EVERY history of opening and advancing any number of iterators each iterator yields '
        'exactly what it yields alone, and one opened later is unaffected by what happened before; the parent / child iterators are the successor-free instance (drained = the row; each yields a prefix of its own row in any history). In the model isolation is structural, so the verdict rests '
        'on the property\'s own observable on the real code: results after query histories (incl. abandoned half-consumed iterators) equal fresh results; all '
        'interleavings (<= 60 per configuration, thorough <= 1680) of 2-3 open iterators yield the solo sequences, and their yields match the model in Coq '
        '(no repeats, right multiset); 8 reader threads; documents / HPOA files A,B,A through the shared default factories; every ontology-level query (lookups of primary / alternate / obsolete / absent ids in three argument forms, membership, names, len, listings, version) on three fresh loads in fixed, reverse and shuffled order with open listing iterators; half-consumed traversals resumed after another query; one prefix-set object used for several loads and edited by the caller in between; HPOA files with and without a version line through one loader, each load compared with that of a fresh loader. PARTIAL: preemption inside a '
        'generator step and true parallelism are explored, not proved.',
        'Trusted: Coq kernel + vm_compute; generator semantics modelled as explicit states; footprint digest is diagnostic only.',
        '§4 C12'),
    'C13': (
        'Coq proof (for every decision oracle AND for every stream of similarity values through the modelled loop - similarity matrix, first-position argmax, epsilon test, pops: the clustering keeps every leaf, in-order leaves are a rearrangement of the input, positions are handed out once) + per-run vm_compute correspondence that runs the similarity values each real argsort run obtained from its measure through the model',
        'Machine-checked theorems for EVERY decision oracle and for EVERY stream of similarity values (= every similarity measure, ties, all-zero, negative values, any epsilon) and every non-empty '
        'id sequence, repeats allowed: the clustering loop ends with one tree whose tagged leaves in order are a rearrangement of the input ids; '
        '_find_indices then returns each position 0..n-1 exactly once and indexing the input with the result yields exactly that order; a single item '
        'gives (0,); the empty sequence raises. Ids enter only through equality, so TermIds and identified objects agree, and the model is a function, so '
        'repeated calls agree. Correspondence: edge-distance, IC (injective/zero/tied/negative) and a scripted arbitrary measure on random DAGs, on fresh and on used graphs, the ids also as a numpy object array and as a deque, with follow-up calls on the same sorter '
        '(fresh lists and one list edited in place); the values returned by the measure are recorded call by call (as ranks) and run through the model\'s own argmax / epsilon logic - the index '
        'tuple must be identical; a different but valid order is reported as a broken correspondence (no-failing-input-found), the property predicate (permutation etc.) is evaluated on every output.',
        'Trusted: Coq kernel + vm_compute; the similarity measures are not modelled (quantified over); the measure is wrapped from the harness to '
        'record its values (numpy.argmax is additionally intercepted where possible). Repeated ids gave repeated positions: genuine defect fixed in /repo (fix: 9d9fa05).',
        '§4 C13'),
    'C15': (
        'Coq proof (refinement of the nested-dict container to a map on unordered pairs by induction over histories; structural invariant for items/len; metadata codec; CSV row codec = writer + reader state machine; FILE-level to_csv / from_csv text model with round-trip theorem through the universal-newline layer; rebuild theorem; end-to-end container round trip) + per-run vm_compute correspondence (histories, codecs, whole files well-formed and malformed) and an executed CSV round trip',
        'Machine-checked theorems for EVERY history of set_similarity calls and any value type with a zero and a sign test: get(a,b) = get(b,a) = the last '
        'accepted value written to the unordered pair {a,b}, else 0; a negative value raises and changes nothing; items lists every stored unordered pair '
        'exactly once (normalised order, current value) and len = |items|; a pair is stored iff an accepted write touched it. Metadata: every non-empty '
        'key-unique map without ; = CR LF encodes to a single line, frames/unframes and decodes to itself; any reserved character is rejected. CSV: every row '
        'without line breaks is read back unchanged (commas, quotes, #, blanks, empty fields); the FILE to_csv writes (comment lines, column names, CR LF rows) read '
        'through the universal-newline handle gives back exactly the header lines and the rows in order; re-inserting the listed items reproduces the container (same '
        'value for every pair in either order, same len, same items); composed: history -> container -> file -> from_csv -> container is the identity on similarities, '
        'for any repr/float oracle pair with float(repr(v)) = v. Correspondence: all histories of length <=2 (quick) / <=3 (thorough) over 27 operations with a full '
        'read-back after every step, random long histories over 7 key alphabets and extreme values, row codec, whole written files, from_csv on 220/900 whole files (65% mostly valid, '
        '35% malformed) vs the file-level model (metadata + items or exception class). PARTIAL (runtime codec): float repr / float() and gzip are an oracle; the real '
        '.csv/.csv.gz round trip is executed and compared by float.hex.',
        'Trusted: Coq kernel + vm_compute; str <= as bytewise order on UTF-8; float sign / validity / value read off a per-file table computed by Python. Two genuine defects fixed in /repo: '
        'line breaks in metadata (fix: 435735a), rows with #-keys dropped by from_csv (fix: b0ef295).',
        '§4 C15'),
    'C16': (
        'Coq proof (decision table of the I/O helper incl. the text layer it creates - encoding selection and newline mode - + content semantics for any codecs with the two round-trip laws; universal-newline translation; suffix/prefix tests) + per-run vm_compute correspondence of the decisions and layers and an EXECUTED exhaustive product of source kinds x readers / writers x line endings x two process configurations',
        'Machine-checked theorems: for every argument kind (str path or URL, .gz name, open text stream, open binary stream, anything else), any bytes '
        'type and ANY codecs with decode(encode c) = c (for the REQUESTED encoding only - nothing is assumed of the locale\'s codec, no handle the helper creates uses it) '
        'and gunzip(gzip b) = b: every handle the helper opens for reading delivers the content with its line endings translated (LF, CR LF and CR '
        'variants of one text are delivered as the same text, never a carriage return), a caller\'s text stream opened the default way yields that very text, so every reader '
        'built on it gives the same result for every kind; the writer leaves in every kind of target exactly the material a reader of that kind reads back '
        '(stated for os.linesep = LF; the CR LF platform caveat is a model-level example); any other argument raises ValueError; looks_gzipped is exactly "ends with .gz", '
        'looks_like_url exactly "starts with http:// or https://". PARTIAL BY NATURE: which Python object falls into which kind (isinstance) and the codecs are '
        'runtime behaviour - the correspondence executes the whole product (4 readers x 11 source kinds x ASCII/non-ASCII x LF/CRLF/CR, 2 writers x 4 target kinds, 11 other '
        'argument types incl. io.IOBase objects that are neither text, buffered nor raw streams; again under LC_ALL=C without UTF-8 mode) on every run and compares the helper\'s decisions and the observed text layer (handle.encoding under default and latin-1 requests; '
        'probe text delivered / emitted) for 26 arguments and 170 strings with the model.',
        'Trusted: Coq kernel + vm_compute; runtime type classification, UTF-8 and gzip. URL sources are not opened (no network). Three genuine defects fixed in /repo '
        '(streams rejected outright; CR LF content through a .gz path; plain-path writer ignoring the encoding - see known_findings.json).',
        '§4 C16'),
    'C18': (
        'Coq proof (helpers, exists_path and augment_* over the proved graph model; union of closures for any collection) + per-run vm_compute correspondence with src/hpotk/algorithm/_traversal.py, _augment.py',
        'Machine-checked theorems for every graph built from an acyclic edge list, a bare graph or anything carrying one, CURIE or TermId sources: each '
        'module-level helper returns exactly the (duplicate-free) set of the corresponding graph query plus the source iff asked; exists_path(a,b) is true '
        'exactly when b is a strict ancestor of a; augmenting a single term equals the helper on it; augmenting ANY collection (empty, singleton, repeats, '
        'overlapping closures) gives the union of the closures, with the terms themselves only when asked; unknown nodes, malformed sources and non-graph '
        'arguments raise ValueError. Correspondence: all seven functions on enumerated + random DAGs, every node, all 2-subsets, random k-subsets, '
        'list/tuple/set/frozenset, graph / GraphAware stub / MinimalOntology, sources as CURIE / TermId / user-defined TermId subclass.',
        'Trusted: as C01; isinstance dispatch modelled by constructor tags chosen by the harness. augment_with_descendants(single term) returned ancestors: '
        'genuine defect fixed in /repo (fix: 1b293c0).',
        '§4 C18'),
}

PLANNED = {}


def main():
    props = [json.loads(l) for l in open(os.path.join(VERIF, 'properties.jsonl'))]
    checks = []
    na = []
    for p in props:
        pid = p['id']
        if pid in CHECKS:
            tech, text, note, ref = CHECKS[pid]
            checks.append({
                'property_id': pid,
                'quick_cmd': f'./check {pid} --tier quick',
                'thorough_cmd': f'./check {pid} --tier thorough',
                'evidence_file': f'evidence/{pid}.json',
                'replay_cmd_template': f'./check {pid} --replay {{path}}',
                'engine': 'coq-model+correspondence',
                'level_claimed': {'category': 'proof', 'text': text, 'design_ref': ref},
                'level_note': note,
                'technique': tech,
            })
        else:
            na.append({'property_id': pid, 'reason': PLANNED.get(pid, 'not claimed yet: model, theorems and correspondence for this '
                                                                 'property are still being built (DESIGN.md §8 build order); '
                                                                 'the technique applies')})
    man = {
        'version': 1,
        'setup_cmd': './setup.sh',
        'hooks': {
            'guard': 'HPOTK_VERIF',
            'enable': 'no source hooks: checks run $VERIF_REPO/src (default /repo/src) in a fresh interpreter with HPOTK_VERIF=1 '
                      'and observe through public API / harness-side monkeypatching only',
            'baseline_off_cmd': 'cd /repo && env -u HPOTK_VERIF /venv/bin/python -m pytest -ra -q -p no:cacheprovider --timeout=900 '
                                '--continue-on-collection-errors',
            'source_commits': [],
            'add_only': True,
        },
        'engines': [{
            'name': 'coq-model+correspondence', 'path': 'coq/ + harness/',
            'serves_properties': sorted(CHECKS),
            'kind_free_text': 'Coq 8.16.1 development (hand-written executable Gallina models + theorems, stdlib only) and a Python '
                              'harness that runs the real implementation and lets Coq compare it with the model by vm_compute',
        }],
        'checks': checks,
        'not_applicable': na,
        'notes': 'See DESIGN.md. ./check <id> --tier quick|thorough; VERIF_SEED, VERIF_TIER, VERIF_REPO honoured.',
    }
    with open(os.path.join(VERIF, 'MANIFEST.json'), 'w') as fh:
        json.dump(man, fh, indent=1)
    print('wrote MANIFEST.json with', len(checks), 'checks,', len(na), 'not yet claimed')


if __name__ == '__main__':
    main()
