"""Regenerates /verif/MANIFEST.json from the table below (kept in one place so it stays valid)."""
import json
import os
import sys

VERIF = os.path.dirname(os.path.dirname(os.path.abspath(__file__)))

# pid -> (technique, level text, level_note, design_ref)
CHECKS = {
    'C04': (
        'Coq proof over a Gallina model of TermId + per-run vm_compute correspondence with src/hpotk/model/_term_id.py',
        'Machine-checked theorems (all strings, all term ids, no bound): parse succeeds iff a delimiter is present and splits at the '
        'first colon else first underscore; value re-parses to an equal id; == is equality of (prefix,id); equal ids hash equally '
        'across both classes; < is a strict total lexicographic order; sort+dedupe is canonical and the bisect loop finds exactly '
        'the present ids. The model is tied to the code by differential execution on every run (exhaustive small alphabet + random unicode).',
        'Trusted: Coq kernel + vm_compute; hash((prefix,id)) abstracted as a function of the two strings; numpy.unique/bisect modelled; '
        'harness rendering. idx >= 0 for directly constructed ids; no lone surrogates.',
        '§4 C04'),
    'C17': (
        'Coq proof (refinement of the CSR builder to a dense map, by induction over assignment histories) + per-run vm_compute correspondence with src/hpotk/graph/csr/_csr.py',
        'Machine-checked theorems for every shape, every value type with a zero and EVERY history of assignments: the builder keeps a valid '
        'sorted CSR and denotes the last-write-wins dense matrix (builder_refines_dense); for any valid CSR triple (sorted or not) cell, row and '
        'value->columns reads equal the dense matrix, each column once; any coordinate outside the shape (negative included) raises. '
        'Correspondence: all assignment sequences of length <=3 (quick) / <=4 (thorough) on a 2x3 matrix, degenerate shapes, random histories '
        'and hand-built CSR triples, with every cell/row/value query and out-of-range coordinate read back from the real classes.',
        'Trusted: Coq kernel + vm_compute; numpy slicing / fancy assignment / masks and deque.insert modelled functionally; dtype values rendered '
        'as integers (exact). Error class is compared only as error-vs-value (the property does not fix it). NZ hypothesis = assignments of non-zero values, as the property states.',
        '§4 C17'),
}

PLANNED = {}


def main():
    props = [json.loads(l) for l in open(os.path.join(VERIF, 'properties.jsonl'))]
    checks = []
    na = []
    for p in props:
        pid = p['id']
        if pid in CHECKS:
            tech, text, note, ref = CHECKS[pid]
            checks.append({
                'property_id': pid,
                'quick_cmd': f'./check {pid} --tier quick',
                'thorough_cmd': f'./check {pid} --tier thorough',
                'evidence_file': f'evidence/{pid}.json',
                'replay_cmd_template': f'./check {pid} --replay {{path}}',
                'engine': 'coq-model+correspondence',
                'level_claimed': {'category': 'proof', 'text': text, 'design_ref': ref},
                'level_note': note,
                'technique': tech,
            })
        else:
            na.append({'property_id': pid, 'reason': PLANNED.get(pid, 'not claimed yet: model, theorems and correspondence for this '
                                                                 'property are still being built (DESIGN.md §8 build order); '
                                                                 'the technique applies')})
    man = {
        'version': 1,
        'setup_cmd': './setup.sh',
        'hooks': {
            'guard': 'HPOTK_VERIF',
            'enable': 'no source hooks: checks run $VERIF_REPO/src (default /repo/src) in a fresh interpreter with HPOTK_VERIF=1 '
                      'and observe through public API / harness-side monkeypatching only',
            'baseline_off_cmd': 'cd /repo && env -u HPOTK_VERIF /venv/bin/python -m pytest -ra -q -p no:cacheprovider --timeout=900 '
                                '--continue-on-collection-errors',
            'source_commits': [],
            'add_only': True,
        },
        'engines': [{
            'name': 'coq-model+correspondence', 'path': 'coq/ + harness/',
            'serves_properties': sorted(CHECKS),
            'kind_free_text': 'Coq 8.16.1 development (hand-written executable Gallina models + theorems, stdlib only) and a Python '
                              'harness that runs the real implementation and lets Coq compare it with the model by vm_compute',
        }],
        'checks': checks,
        'not_applicable': na,
        'notes': 'See DESIGN.md. ./check <id> --tier quick|thorough; VERIF_SEED, VERIF_TIER, VERIF_REPO honoured.',
    }
    with open(os.path.join(VERIF, 'MANIFEST.json'), 'w') as fh:
        json.dump(man, fh, indent=1)
    print('wrote MANIFEST.json with', len(checks), 'checks,', len(na), 'not yet claimed')


if __name__ == '__main__':
    main()
