"""C17 - sparse CSR matrix and builder behave like the dense matrix.  Correspondence driver."""
import itertools
import json

from common import cnat, cz, cbool, clist, ctuple, cres, log

HEADER = '''From Coq Require Import List ZArith.
From Hpotk Require Import Base.Result Base.Emit Csr.Model Corr.C17.
Import ListNotations.'''

TRUSTED_BASE = [
    'numpy slicing / fancy assignment / boolean masks and collections.deque.insert are modelled functionally (firstn/skipn, scatter, filter)',
    'values of dtype int/bool/float are rendered as integers (dyadic floats scaled by 4) - exact',
]
ASSUMPTIONS = ['indices are Python ints', 'hand-given CSR triples are valid (monotone row pointers, per-row distinct in-range columns, non-zero data)']


def queries(R, C, vals, dtype='int'):
    # the whole window of negative indices that Python slicing / indexing would wrap around (-R-2 .. -1), not just -1 and -2
    rs = list(range(-R - 3, R + 3)) + [10 ** 6, -10 ** 6]
    cs = list(range(-C - 3, C + 3)) + [10 ** 6, -10 ** 6]
    cells = [[r, c] for r in rs for c in cs if -2 <= r <= R + 1 or c in (0, -1, 1) or r == c or r == -c]
    rows = rs
    # value queries: stored values, the default, an absent value, and a value the dtype cannot hold (1.5 / 2, sent as a code)
    civ = [[r, v] for r in rs for v in sorted(set(vals) | ({0, 7} if dtype != 'bool' else {0, 1}) | ({999983} if dtype == 'int' else {999985} if dtype == 'bool' else set()))]
    return {'cells': cells, 'rows': rows, 'civ': civ}


def creads(rd):
    cells = clist([ctuple([cz(r), cz(c), cres(o, cz)]) for r, c, o in rd['cells']])
    rows = clist([ctuple([cz(r), cres(o, lambda l: clist([cz(x) for x in l]))]) for r, o in rd['rows']])
    civ = clist([ctuple([cz(r), cz(v), cres(o, lambda l: clist([cnat(x) for x in l]))]) for r, v, o in rd['civ']])
    return f'(mkReads {cells} {rows} {civ})'


def render(case, obs):
    if case['kind'] == 'build':
        ops = clist([ctuple([cz(r), cz(c), cz(v)]) for r, c, v in case['ops']])
        return (f'CBuild {case["R"]} {case["C"]} {ops} {clist([cbool(b) for b in obs["oks"]])} {creads(obs["reads"])}')
    return (f'CGiven {clist([cnat(x) for x in case["row"]])} {clist([cnat(x) for x in case["col"]])} '
            f'{clist([cz(x) for x in case["data"]])} {case["R"]} {case["C"]} {creads(obs["reads"])}')


def build_case(R, C, ops, dtype='int', vals=None):
    vals = vals if vals is not None else [v for _, _, v in ops]
    return {'kind': 'build', 'R': R, 'C': C, 'dtype': dtype, 'ops': [list(o) for o in ops], 'queries': queries(R, C, vals, dtype)}


def rand_given(rng, R, C, dtype):
    row, col, data = [0], [], []
    for _ in range(R):
        k = rng.randint(0, C) if rng.random() < 0.8 else 0
        cs = rng.sample(range(C), k)          # distinct, unsorted
        col += cs
        data += [rng.choice([1, 2, 3] if dtype != 'bool' else [1]) for _ in cs]
        row.append(len(col))
    return {'kind': 'given', 'R': R, 'C': C, 'dtype': dtype, 'row': row, 'col': col, 'data': data,
            'queries': queries(R, C, data, dtype)}


def gen(chk):
    rng = chk.rng
    thorough = chk.tier == 'thorough'
    cases = []
    # exhaustive: all assignment sequences of length <= L over the 12 assignments of a 2x3 int matrix
    R, C = 2, 3
    assigns = [(r, c, v) for r in range(R) for c in range(C) for v in (1, 2)]
    L = 4 if thorough else 3
    for n in range(L + 1):
        for seq in itertools.product(assigns, repeat=n):
            cases.append(build_case(R, C, seq, 'int', [1, 2]))
    n_exh = len(cases)
    # degenerate shapes with every in-range and out-of-range assignment
    for (R, C) in [(0, 0), (0, 3), (3, 0), (1, 1), (3, 4), (1, 5), (5, 1)]:
        coords = [(r, c) for r in range(-2, R + 2) for c in range(-2, C + 2)]
        for (r, c) in coords:
            pre = [(rng.randrange(R), rng.randrange(C), 1)] if R and C and rng.random() < 0.5 else []
            cases.append(build_case(R, C, pre + [(r, c, 2)], 'int', [1, 2]))
        cases.append(build_case(R, C, [], 'int', [1]))
    # random histories
    for _ in range(400 if not thorough else 3000):
        R, C = rng.randint(1, 8), rng.randint(1, 8)
        dtype = rng.choice(['int', 'int', 'bool', 'float'])
        vals = {'int': [1, 2, 3, -1], 'bool': [1], 'float': [6, 9, -2, 1]}[dtype]   # floats are v/4
        n = rng.randint(0, 40)
        style = rng.choice(['uniform', 'descending', 'onerow', 'overwrite'])
        ops = []
        for k in range(n):
            if style == 'descending':
                r, c = rng.randrange(R), C - 1 - (k % C)
            elif style == 'onerow':
                r, c = R - 1 if rng.random() < 0.8 else 0, rng.randrange(C)
            elif style == 'overwrite' and ops and rng.random() < 0.5:
                r, c, _ = rng.choice(ops)
            else:
                r, c = rng.randrange(R), rng.randrange(C)
            if rng.random() < 0.04:
                r, c = rng.choice([(-1, c), (R, c), (r, -1), (r, C), (R + 1, C + 1)])
            ops.append((r, c, rng.choice(vals)))
        cases.append(build_case(R, C, ops, dtype))
    for _ in range(200 if not thorough else 1500):
        R, C = rng.randint(0, 7), rng.randint(0, 7)
        cases.append(rand_given(rng, R, C, rng.choice(['int', 'bool', 'float'])))
    # matrices with more stored cells than an 8-bit offset can count although both dimensions are small
    # (row pointers count stored cells, not rows or columns): a hand-given CSR triple and a built one
    for (R, C) in ([(17, 18)] if not thorough else [(17, 18), (16, 16), (20, 20)]):
        big = rand_given(rng, R, C, 'int')
        row, col, data = [0], [], []
        for r in range(R):
            cs = [c for c in range(C) if (r + c) % 11 != 0]
            rng.shuffle(cs)
            col += cs
            data += [1 + (r * 7 + c) % 3 for c in cs]
            row.append(len(col))
        big.update({'row': row, 'col': col, 'data': data})
        cases.append(big)
        ops = [(r, c, 1 + (r + 2 * c) % 3) for r in range(R) for c in range(C) if (r * c) % 13 != 1]
        rng.shuffle(ops)
        cases.append(build_case(R, C, ops, 'int'))
    # beyond the model's reach: > 65 535 stored cells, compared directly with the dense matrix
    cases.append({'kind': 'scale', 'R': 270, 'C': 262, 'gap': 29, 'seed': rng.randrange(10 ** 6)})
    if thorough:
        cases.append({'kind': 'scale', 'R': 300, 'C': 300, 'gap': 7, 'seed': rng.randrange(10 ** 6)})
    return cases, n_exh


def scale_probes(chk, scale):
    if scale:
        for c, o in zip(scale, chk.run_impl('C17', {'cases': scale})['cases']):
            chk.count('scale-probe')
            chk.extra.setdefault('scale_probes', []).append({'shape': [c['R'], c['C']], 'stored_cells': o.get('stored'), 'mismatches': o.get('n_mismatches', o.get('crash'))})
            if o.get('n_mismatches') or 'crash' in o:
                chk.report_violation('C17:scale', {'case': c, 'impl': o, 'theorem': 'C17_reads_are_dense',
                                                   'explanation': 'a matrix with more stored cells than a 16-bit offset can count differs from the dense matrix it stands for (compared directly, no model)'},
                                     what=f'C17:scale: {c["R"]}x{c["C"]} matrix with {o.get("stored")} stored cells differs from its dense matrix: {json.dumps(o.get("mismatches", o.get("crash")))[:300]}')


def evaluate(chk, cases, tag='cases'):
    obs = chk.run_impl('C17', {'cases': cases})['cases']
    crashed = [i for i, o in enumerate(obs) if 'crash' in o]
    live = [i for i, o in enumerate(obs) if 'crash' not in o]
    terms = {i: render(cases[i], obs[i]) for i in live}
    failing = [live[j] for j in chk.coq_failing(HEADER, [terms[i] for i in live], 'check_case', shard=250, tag=tag)]
    terms = [terms.get(i, '(* implementation crashed *)') for i in range(len(cases))]
    aliased = [i for i in live if obs[i].get('snapshots_changed')]        # a frozen matrix changed when the builder went on
    return terms, obs, sorted(set(failing + crashed + aliased))


def shrink(chk, case):
    """greedy removal of assignments while the case keeps failing"""
    if case['kind'] != 'build':
        return case
    cur = case
    for _ in range(12):
        ops = cur['ops']
        cands = [build_case(cur['R'], cur['C'], ops[:i] + ops[i + 1:], cur['dtype'], [v for _, _, v in ops]) for i in range(len(ops))]
        if not cands:
            break
        _, _, failing = evaluate(chk, cands, tag='shrink')
        if not failing:
            break
        cur = cands[failing[0]]
    return cur


def run(chk):
    cases, n_exh = gen(chk)
    scale_probes(chk, [c for c in cases if c['kind'] == 'scale'])
    cases = [c for c in cases if c['kind'] != 'scale']
    terms, obs, failing = evaluate(chk, cases)
    for c in cases:
        chk.count(c['kind'] + ':' + c['dtype'])
        if c['kind'] == 'build':
            chk.count('ops_len_%s' % ('0' if not c['ops'] else '1-3' if len(c['ops']) <= 3 else '4-10' if len(c['ops']) <= 10 else '11+'))
            nontrivial = len(c['ops']) >= 2
        else:
            nontrivial = len(c['col']) >= 2
        key = {k: c[k] for k in c if k != 'queries'}
        chk.note_case(key, nontrivial=nontrivial, sample_every=700)
    chk.extra['exhaustive_histories'] = n_exh
    chk.extra['mid_history_snapshots'] = sum(o.get('snapshots', 0) for o in obs)
    chk.extra['reads_compared'] = sum(len(o['reads']['cells']) + len(o['reads']['rows']) + len(o['reads']['civ']) for o in obs if 'reads' in o)
    chk.exhaustive = True
    chk.rule = ('all assignment sequences of length <= %d over the 12 non-zero assignments of a 2x3 matrix; degenerate shapes with every '
                'in/out-of-range coordinate; random histories (uniform / descending columns / one row / overwrites, <= 40 ops, shapes <= 8x8, '
                'int/bool/float) ; random valid hand-built CSR triples with unsorted rows.  Matrices frozen from the builder in the middle of a history (every prefix of a short one) are read at once and again after the remaining assignments: nothing may change.  After each history the frozen matrix is read back: '
                'every cell and row incl. out-of-range coordinates, col_indices_of_val for stored values, the default and an absent value. '
                'non-trivial = at least 2 assignments / stored entries; distinct by digest' % (4 if chk.tier == 'thorough' else 3))
    if failing:
        i = min(failing, key=lambda j: len(json.dumps(cases[j])))
        small = shrink(chk, cases[i])
        t, o, f = evaluate(chk, [small], tag='final')
        chk.report_violation('C17:' + small['kind'],
                             {'case': small, 'impl': o[0], 'coq_case': t[0], 'failing_cases': len(failing),
                              'theorem': 'C17_builder_refines_dense / C17_reads_are_dense / C17_out_of_shape',
                              'explanation': 'reading the matrix back differs from the dense matrix the proved model denotes' if not o[0].get('snapshots_changed') else 'a matrix frozen from the builder after %s assignments reads differently once the builder has been assigned to again' % o[0]['snapshots_changed']},
                             what='CSR read-back differs from the dense matrix for ' + json.dumps({k: small[k] for k in small if k != 'queries'}))


def replay(chk, path):
    rp = json.loads(open(path).read())
    case = rp['case']
    if case.get('kind') == 'scale':            # a probe compared with the dense matrix directly: rebuilt from its seed
        o = chk.run_impl('C17', {'cases': [case]})['cases'][0]
        log('impl now :', json.dumps(o)[:1500])
        if o.get('n_mismatches') or 'crash' in o:
            chk.report_violation(rp.get('signature', 'C17:replay'), {'case': case, 'impl': o}, what='replayed probe still fails')
        return
    t, o, f = evaluate(chk, [case], tag='replay')
    chk.note_case(case)
    chk.note_case({'replay': path})
    log('impl now :', json.dumps(o[0])[:2000])
    log('model agrees:', not f)
    if f:
        chk.report_violation(rp.get('signature', 'C17:replay'), {'case': case, 'impl': o[0], 'coq_case': t[0]}, what='replayed case still fails')
