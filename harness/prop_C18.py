"""C18 - module-level traversal helpers agree with the graph they wrap."""
import json

import gen_graph as G
import graphcorr as GC
from common import cstr, cbool, clist, ctuple, log, run_coqc

TRUSTED_BASE = [
    'frozenset results are modelled by duplicate-free lists and compared as sorted lists of CURIE values',
    'isinstance dispatch (OntologyGraph / GraphAware / str / TermId / Collection) is modelled by constructor tags; the harness decides which tag a Python value gets',
    'the graph underneath is the proved graph model of C01-C03',
]
ASSUMPTIONS = ['edge lists are acyclic and non-empty; owl:Thing is not an input term',
               'collections passed to augment_* hold TermIds or CURIE strings']
THEOREM = 'C18_helpers_agree_with_graph / C18_exists_path / C18_augment_single / C18_augment_collection'
FACTORIES = ['idx', 'inc', 'bld']

HEADER = GC.HEADER.replace('Corr.Graph.', 'Corr.Graph Helpers.Model Corr.C18.')
WK = {'graph': 'WGraph', 'aware': 'WAware', 'onto': 'WAware', 'none': 'WOther', 'str': 'WOther', 'int': 'WOther'}


def csrc(t, spec):
    kind, v = spec
    if kind == 'str':
        return f'(HStr {t.s(v)})'
    if kind in ('tid', 'utid'):
        return f'(HTid {t.k(v)})'
    return 'HOther'


def casrc(t, spec):
    if spec[0] == 'one':
        return f'(SOne {t.k(spec[1])})'
    if spec[0] == 'many':
        return f'(SMany {clist([csrc(t, s) for s in spec[1]])})'
    return 'SOtherS'


def render_call(t, c, r):
    keys = lambda r: 'RKeys ' + GC.cr(r, lambda l: clist([t.s(x) for x in l]))  # noqa: E731
    if c[0] == 'helper':
        return f'(HHelper {GC.Q[c[1]]} {WK[c[2]]} {csrc(t, c[3])} {cbool(c[4])}, {keys(r)})'
    if c[0] == 'path':
        return f'(HPath {WK[c[1]]} {csrc(t, c[2])} {csrc(t, c[3])}, RBool {GC.cr(r, cbool)})'
    if c[0] == 'augment':
        return f'(HAugment {GC.Q[c[1]]} {WK[c[2]]} {casrc(t, c[3])} {cbool(c[4])}, {keys(r)})'
    raise AssertionError(c)


def render_case(case, obs):
    t = GC.Table()
    edges = clist([ctuple([t.s(a), t.s(b)]) for a, b in case['edges']])
    calls = clist([render_call(t, c, r) for c, r in zip(case['calls'], obs['results'])])
    tbl = clist([cstr(x) for x in t.items])
    return (f'(let tbl := {tbl} in let ks := ktable tbl in let s := tb tbl in let k := kk ks in '
            f'mkHCase {GC.FACT[case["factory"]]} {edges} {calls})')


def evaluate(chk, cases, tag='cases', shard=100):
    obs = []
    for part in [cases[i:i + 2000] for i in range(0, len(cases), 2000)]:
        obs += chk.run_impl('C18', {'cases': part})['cases']
    crashed = [i for i, o in enumerate(obs) if 'crash' in o]
    live = [i for i, o in enumerate(obs) if 'crash' not in o]
    terms = {i: render_case(cases[i], obs[i]) for i in live}
    failing = [live[j] for j in chk.coq_failing(HEADER, [terms[i] for i in live], 'check_hcase', shard=shard, tag=tag)]
    return terms, obs, sorted(failing + crashed)


def absent_ids(nodes):
    return ['HP:9999999', 'AA:0', 'zz:9']


def forms(rng, x):
    """CURIE str (both spellings when legal) or TermId"""
    p, i = G.key_of(x)
    out = [['tid', x], ['str', G.value_of(x)], ['utid', x]]
    if p and '_' not in p and ':' not in i and '_' not in i:
        out.append(['str', p + '_' + i])
    return out


def calls_for(edges, rng, small):
    nodes = G.nodes_of(edges)
    multi = len({G.key_of(b) for _, b in edges} - {G.key_of(a) for a, _ in edges}) > 1
    allnodes = nodes + (['owl:Thing'] if multi else [])
    calls = []
    wk = lambda: rng.choice(['graph', 'aware', 'onto'])  # noqa: E731
    for x in allnodes:
        for q in 'PCAD':
            for incl in (False, True):
                calls.append(['helper', q, wk(), rng.choice(forms(rng, x)), incl])
        for q in 'AD':
            for incl in (False, True):
                calls.append(['augment', q, wk(), ['one', x], incl])
                calls.append(['augment', q, wk(), ['many', [rng.choice(forms(rng, x))], rng.choice(['list', 'tuple', 'set', 'frozenset'])], incl])
    pairs = [(a, b) for a in allnodes for b in allnodes]
    if not small:
        pairs = rng.sample(pairs, min(len(pairs), 80))
    for a, b in pairs:
        calls.append(['path', wk(), rng.choice(forms(rng, a)), rng.choice(forms(rng, b))])
    # collections: empty, all 2-subsets (small graphs), random k-subsets, with repeats
    subsets = [[]]
    if small:
        subsets += [[a, b] for i, a in enumerate(allnodes) for b in allnodes[i + 1:]]
    for _ in range(6 if small else 12):
        k = rng.randint(1, min(len(allnodes), 6))
        subsets.append(rng.sample(allnodes, k))
    subsets.append([allnodes[0], allnodes[0]])
    for sub in subsets:
        for q in 'AD':
            for incl in (False, True):
                cont = rng.choice(['list', 'tuple']) if len(set(sub)) != len(sub) else rng.choice(['list', 'tuple', 'set', 'frozenset'])
                calls.append(['augment', q, wk(), ['many', [rng.choice(forms(rng, x)) if cont in ('list', 'tuple') else ['tid', x] for x in sub], cont], incl])
    # unknown nodes, malformed arguments, things that are not graphs
    for ab in absent_ids(nodes):
        q = rng.choice('PCAD')
        calls.append(['helper', q, wk(), ['tid', ab], rng.random() < 0.5])
        calls.append(['helper', q, wk(), ['str', ab], rng.random() < 0.5])
        calls.append(['path', wk(), ['tid', ab], ['tid', allnodes[0]]])
        calls.append(['path', wk(), ['tid', allnodes[-1]], ['tid', ab]])
        calls.append(['path', wk(), ['tid', ab], ['str', ab]])
        calls.append(['augment', rng.choice('AD'), wk(), ['one', ab], False])
        calls.append(['augment', rng.choice('AD'), wk(), ['many', [['tid', allnodes[0]], ['tid', ab]], 'list'], True])
    for bad in (['other', 'none'], ['other', 'int'], ['other', 'bytes'], ['str', 'nocurie'], ['str', '']):
        calls.append(['helper', rng.choice('PCAD'), wk(), bad, False])
        calls.append(['path', wk(), bad, ['tid', allnodes[0]]])
        calls.append(['path', wk(), ['tid', allnodes[0]], bad])
        calls.append(['augment', rng.choice('AD'), wk(), ['many', [['tid', allnodes[0]], bad], 'list'], False])
    for w in ('none', 'str', 'int'):
        calls.append(['helper', rng.choice('PCAD'), w, ['tid', allnodes[0]], False])
        calls.append(['path', w, ['tid', allnodes[0]], ['tid', allnodes[-1]]])
        calls.append(['augment', rng.choice('AD'), w, ['one', allnodes[0]], False])
        calls.append(['augment', rng.choice('AD'), w, ['many', [], 'list'], False])
    for o in ('none', 'int', 'float'):
        calls.append(['augment', rng.choice('AD'), wk(), ['other', o], False])
    return calls


def gen(chk):
    rng = chk.rng
    thorough = chk.tier == 'thorough'
    graphs = []
    k = 4
    sets = list(G.all_acyclic_edge_sets(k))
    if not thorough:
        sets = [s for i, s in enumerate(sets) if i % 3 == 0]
    for edges in sets:
        labels = G.POOL_PLAIN[:k] if rng.random() < 0.5 else ['HP:10', 'HP:9', 'MP_1', 'HP:é']
        es = G.label(edges, labels)
        rng.shuffle(es)
        graphs.append(('exh4', es, True))
    for _ in range(120 if not thorough else 1200):
        fam, m, edges = G.random_dag(rng, 5, 12 if not thorough else 30)
        graphs.append((fam, G.label(edges, G.pick_labels(rng, m)), m <= 6))
    return graphs


def load_corpus():
    return GC.load_corpus('C18')


def run(chk):
    cases = list(load_corpus())
    ncorpus = len(cases)
    for fam, es, small in gen(chk):
        chk.count('shape:' + fam)
        f = chk.rng.choice(FACTORIES)
        chk.count('factory:' + f)
        calls = calls_for(es, chk.rng, small)
        for c in calls:
            chk.count('call:' + c[0])
        cases.append({'factory': f, 'edges': es, 'calls': calls})
        chk.note_case({'edges': es}, nontrivial=len(es) >= 2, sample_every=300)
    terms, obs, failing = evaluate(chk, cases)
    chk.evaluations = sum(len(c['calls']) for c in cases)
    chk.traces = len(cases)
    chk.extra['corpus_cases'] = ncorpus
    chk.rule = ('acyclic edge sets over 4 labelled positions (every 3rd in quick, all in thorough) + random DAG shape families; for each graph one real factory; '
                'helpers get_parents/children/ancestors/descendants for every node x both flags x {graph, GraphAware stub, MinimalOntology} x {TermId, CURIE str in both spellings}; '
                'exists_path for all ordered pairs (small graphs) / 80 sampled pairs; augment_with_ancestors/descendants for every single term, the empty collection, '
                'all 2-subsets (small graphs), random k-subsets, a repeated term, in list/tuple/set/frozenset; absent ids, malformed sources, non-graph first arguments. '
                'Results are compared as sorted lists of CURIE values / booleans / exception class. evaluations = helper calls compared')
    if failing:
        report(chk, cases, failing)


def call_sig(c):
    if c[0] == 'augment':
        return 'C18:augment-%s-%s' % (c[3][0], c[1])
    return 'C18:' + c[0]


def failing_calls(chk, case):
    """the calls of a failing case that fail on their own (one batched evaluation)"""
    singles = [dict(case, calls=[c]) for c in case['calls']]
    _, _, f = evaluate(chk, singles, tag='sig')
    return [case['calls'][i] for i in f]


def sig_of(chk, case):
    fc = failing_calls(chk, case)
    return call_sig(fc[0]) if fc else 'C18:?'


def shrink(chk, case):
    cur = case
    for _ in range(12):
        calls = cur['calls']
        if len(calls) <= 1:
            break
        half = [dict(cur, calls=calls[:len(calls) // 2]), dict(cur, calls=calls[len(calls) // 2:])]
        _, _, f = evaluate(chk, half, tag='shrink')
        if not f:
            break
        cur = half[f[0]]
    for _ in range(12):
        es = cur['edges']
        cands = [dict(cur, edges=es[:i] + es[i + 1:]) for i in range(len(es)) if len(es) > 1]
        if not cands:
            break
        _, _, f = evaluate(chk, cands, tag='shrink')
        if not f:
            break
        cur = cands[f[0]]
    return cur


def model_answer(chk, term):
    f = chk.work / 'model_answer.v'
    f.write_text(HEADER + f'\nEval vm_compute in (hmodel_answers {term}).\n')
    r = run_coqc(f, timeout=120, cwd=chk.work)
    return (r.stdout + r.stderr)[-3000:]


def report(chk, cases, failing, limit=4, examine=6):
    """one minimal replay per distinct signature (kind of failing call), from the smallest failing cases"""
    seen = {}
    for i in sorted(failing, key=lambda j: len(json.dumps(cases[j])))[:examine]:
        for c in failing_calls(chk, cases[i]) or cases[i]['calls'][:1]:
            sig = call_sig(c)
            if sig in seen or len(seen) >= limit:
                continue
            seen[sig] = 1
            small = shrink(chk, dict(cases[i], calls=[c]))
            terms, obs, f = evaluate(chk, [small], tag='final')
            model = model_answer(chk, terms[0]) if 'crash' not in obs[0] else 'n/a'
            chk.report_violation(sig, {'case': small, 'impl': obs[0], 'model': model, 'theorem': THEOREM,
                                       'failing_cases_total': len(failing),
                                       'explanation': 'the helper answer differs from the answer the proved model fixes'},
                                 what=f'helper answer differs from the model: factory={small["factory"]} edges={json.dumps(small["edges"])} '
                                      f'call={json.dumps(small["calls"][0])}')


def replay(chk, path):
    rp = json.loads(open(path).read())
    cases = rp['cases'] if 'cases' in rp else [rp['case']]
    for case in cases:
        terms, obs, f = evaluate(chk, [case], tag='replay')
        chk.note_case(case)
        log('impl now :', json.dumps(obs[0])[:2000])
        log('model    :', model_answer(chk, terms[0]) if 'crash' not in obs[0] else 'n/a')
        log('agree    :', not f)
        if f:
            chk.report_violation(rp.get('signature', sig_of(chk, case)), {'case': case, 'impl': obs[0]}, what='replayed case still fails')
