"""Observation of the real TermId implementation for C04."""
import bisect

import numpy as np

from hpotk.model import TermId
from hpotk.model._term_id import DefaultTermId, SimpleTermId
from hpotk.graph._factory import _index_of_using_binary_search


def exn_name(e):
    n = type(e).__name__
    return n if n in ('ValueError', 'IndexError', 'KeyError', 'TypeError') else 'Other:' + n


def build(spec):
    kind = spec[0]
    if kind == 'curie':
        return TermId.from_curie(spec[1])
    if kind == 'default':
        return DefaultTermId(value=spec[1], idx=spec[2])
    if kind == 'simple':
        return SimpleTermId(value=spec[1], idx=spec[2])
    raise AssertionError(kind)


def triple(t):
    v = t.value
    assert str(t) == v
    return [t.prefix, t.id, v]


def observe(payload):
    out = {'parse': [], 'pairs': [], 'sorts': []}
    for spec in payload['parse']:
        try:
            t = build(spec)
            first = {'ok': triple(t)}
        except Exception as e:
            out['parse'].append([{'err': exn_name(e)}, {'err': exn_name(e)}])
            continue
        try:
            again = {'ok': triple(TermId.from_curie(t.value))}
        except Exception as e:
            again = {'err': exn_name(e)}
        out['parse'].append([first, again])
    for a, b in payload['pairs']:
        try:
            ta = build(a)
        except Exception as e:        # the generator only pairs parseable specs: report the spec, do not die
            out['pairs'].append({'err': exn_name(e), 'spec': a})
            continue
        try:
            tb = build(b)
        except Exception as e:
            out['pairs'].append({'err': exn_name(e), 'spec': b})
            continue
        eq = ta == tb
        ne = ta != tb
        assert eq == (not ne)
        out['pairs'].append([bool(eq), bool(ta < tb), bool(tb < ta), hash(ta) == hash(tb)])
    for s in payload['sorts']:
        bad = None
        for c in list(s['l']) + list(s['probes']):
            try:
                TermId.from_curie(c)
            except Exception as e:
                bad = {'err': exn_name(e), 'spec': ['curie', c]}
                break
        if bad is not None:
            out['sorts'].append(bad)
            continue
        ts = [TermId.from_curie(c) for c in s['l']]
        srt = [t.value for t in sorted(ts)]
        uniq = np.unique(np.array(ts, dtype=object)) if ts else np.array([], dtype=object)
        probes = []
        for x in s['probes']:
            tx = TermId.from_curie(x)
            probes.append([x, bisect.bisect_left(uniq, tx), _index_of_using_binary_search(uniq, tx)])
        out['sorts'].append({'sorted': srt, 'unique': [t.value for t in uniq], 'probes': probes})
    return out
