"""C01 - parent/child/ancestor/descendant queries equal the (transitive closure of the) is_a edges."""
import json

import gen_graph as G
import graphcorr as GC

TRUSTED_BASE = [
    'numpy arrays, dict/bisect node lookup, deque/list buffers and generator laziness are modelled functionally (lists, first-match / bisect model, pop policies)',
    'TermId nodes are represented by their (prefix,id) key (justified by C04)',
]
ASSUMPTIONS = ['edge lists are acyclic and non-empty; owl:Thing is not an input term']
THEOREM = 'C01_queries_are_closure / C01_include_source / C01_factory_total'
FACTORIES = ['idx', 'inc', 'bld']


def forms(x):
    """the ways the node can be handed to a query: TermId, CURIE with ':' and - when legal - with '_', identified object, a
    user-defined TermId subclass"""
    p, i = G.key_of(x)
    out = [['tid', x], ['str', G.value_of(x)], ['ident', x], ['utid', x]]
    if p and '_' not in p and ':' not in i and '_' not in i:
        out.append(['str', p + '_' + i])
    return out


def calls_for(nodes):
    # every node x query x flag as TermId, and once more in another argument form (rotating through the forms)
    calls = [['query', q, ['tid', x], incl] for x in nodes for q in 'PCAD' for incl in (False, True)]
    k = 0
    for x in nodes:
        fs = forms(x)[1:]
        for q in 'PCAD':
            calls.append(['query', q, fs[k % len(fs)], k % 2 == 0])
            k += 1
    return calls


def cases_for(edges):
    nodes = G.nodes_of(edges)
    calls = calls_for(nodes)
    return [{'factory': f, 'edges': edges, 'calls': calls} for f in FACTORIES]


def gen(chk):
    rng = chk.rng
    thorough = chk.tier == 'thorough'
    graphs = []
    k = 5 if thorough else 4
    labelsets = [G.POOL_PLAIN[:k], ['HP:10', 'HP:9', 'MP_1', 'HP:é', 'A_B:1'][:k], ['ICD:9', 'ICD10:A', 'ICD:100', 'ICD1:0', 'HP2:1'][:k]]
    n_exh = 0
    for edges in G.all_acyclic_edge_sets(k):
        if thorough and len(edges) > 6 and rng.random() < 0.5:
            continue    # 5 positions: thin out the densest sets
        n_exh += 1
        for li, labels in enumerate(labelsets):
            if thorough and li >= 1 and rng.random() < 0.7:
                continue
            if not thorough and li == 2 and n_exh % 3:
                continue
            es = G.label(edges, labels)
            if li >= 1:
                rng.shuffle(es)
            graphs.append(('exh%d' % k, es))
    for _ in range(300 if not thorough else 3000):
        fam, m, edges = G.random_dag(rng, 5, 14 if not thorough else 40)
        labels = G.pick_labels(rng, m)
        es = G.label(edges, labels)
        if rng.random() < 0.3:
            # an edge LIST: some edges are listed again, anywhere (next to the first listing or many edges later)
            for e in rng.sample(es, min(len(es), rng.randint(1, 3))):
                es.insert(rng.randrange(len(es) + 1), list(e))
            fam += '+repeats'
        graphs.append((fam, es))
    # dense graphs: more edges than an 8-bit index can count on fewer than 256 nodes (index arrays sized by the node
    # count must not be used for edge offsets)
    for m in ([24] if not thorough else [24, 27, 30]):
        graphs.append(('dense', G.dense_graph(rng, m)))
    return graphs, n_exh


def scale_probes(chk):
    """beyond the model's reach: more edges than a 16-bit offset can count, on a few hundred nodes; every probed query is
    compared with the closure computed from the edge list (the property's own oracle, no model)"""
    cases = [{'kind': 'scale', 'n': 420, 'band': 200, 'p': 0.25, 'seed': chk.rng.randrange(10 ** 6), 'factory': f, 'probes': 60}
             for f in (['idx'] if chk.tier != 'thorough' else ['idx', 'inc'])]
    for c, o in zip(cases, chk.run_impl('graph', {'cases': cases}, timeout=900)['cases']):
        chk.count('scale-probe')
        chk.extra.setdefault('scale_probes', []).append({'factory': c['factory'], 'nodes': o.get('nodes'), 'edges': o.get('edges'), 'mismatches': o.get('n_mismatches', o.get('crash'))})
        if o.get('n_mismatches') or 'crash' in o:
            chk.report_violation('C01:scale', {'case': c, 'impl': o, 'theorem': 'C01_queries_are_closure',
                                               'explanation': 'on a graph with more edges than a 16-bit offset can count the queries differ from the transitive closure of the edge list (compared directly, no model); the graph is rebuilt from the seed'},
                                 what=f'C01:scale: factory={c["factory"]} {o.get("nodes")} nodes / {o.get("edges")} edges: {json.dumps(o.get("mismatches", o.get("crash")))[:300]}')


def run(chk):
    scale_probes(chk)
    graphs, n_exh = gen(chk)
    cases = []
    for fam, es in graphs:
        chk.count('shape:' + fam)
        chk.count('nodes:%s' % ('<=4' if len(G.nodes_of(es)) <= 4 else '5-8' if len(G.nodes_of(es)) <= 8 else '9-20' if len(G.nodes_of(es)) <= 20 else '21+'))
        cs = cases_for(es)
        cases += cs
        chk.note_case({'edges': es}, nontrivial=len(es) >= 2, sample_every=500)
    chk.evaluations = 0
    terms, obs, failing = GC.evaluate(chk, cases)
    chk.evaluations = sum(len(c['calls']) for c in cases)
    chk.traces = len(cases)
    chk.extra['graphs'] = len(graphs)
    chk.extra['exhaustive_edge_sets'] = n_exh
    chk.extra['factory_graph_cases'] = len(cases)
    chk.exhaustive = True
    chk.rule = ('all non-empty acyclic edge sets over %d labelled positions x 2 label pools (plain; mixed prefixes / _ CURIEs / non-numeric order / '
                'non-ASCII, shuffled edge order) and, for every third edge set, a pool with prefixes that extend one another (ICD / ICD10 / ICD1, HP2) + random DAGs from shape families (chain, tree, diamond ladder, multi-parent, multi-root, long chain) '
                'with random relabelling; for each graph x each of the 3 factories x every node x {parents, children, ancestors, descendants} x '
                'include_source {F,T}: the sorted list of returned CURIEs is compared with the model. evaluations = queries compared; '
                'distinct_nontrivial = distinct edge lists with >= 2 edges' % (5 if chk.tier == 'thorough' else 4))
    if failing:
        GC.report(chk, 'C01', cases, failing, THEOREM)


def replay(chk, path):
    rp = json.loads(open(path).read())
    if rp.get('case', {}).get('kind') == 'scale':       # a probe compared with the closure directly: rebuilt from its seed
        o = chk.run_impl('graph', {'cases': [rp['case']]}, timeout=900)['cases'][0]
        print("impl now :", json.dumps(o)[:1500])
        if o.get('n_mismatches') or 'crash' in o:
            chk.report_violation(rp.get('signature', 'C01:replay'), {'case': rp['case'], 'impl': o}, what='replayed probe still fails')
        return
    GC.replay(chk, path, 'C01')
