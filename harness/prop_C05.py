"""C05 - Obographs loading is faithful to the document."""
import json

import graphcorr as GC
from common import cstr, cbool, clist, ctuple, cexn, log, run_coqc

TRUSTED_BASE = [
    'json.load is an oracle: the model starts from the parsed document; the harness renders every structured case into a real JSON file',
    'the regular expressions (PURL_PATTERN, DATE_PATTERN, the synonym-type patterns) are modelled as string functions for ASCII; that Python\'s leftmost-greedy '
    'matcher returns the whole word run is argued on paper (DESIGN §4 C05) and validated by the correspondence on ids such as HP_1_, _HP_1, HP__1, HP_1#x',
    'graph = proved C01/C02 model; ontology container = proved C06 model; results flattened to tagged strings on both sides',
]
ASSUMPTIONS = ['well-formed documents: ASCII ids, a label on every retained node, alternate ids / xrefs that are CURIEs, edges with sub/pred/obj; the extracted is_a edges are acyclic']
THEOREM = 'C05_current_terms / C05_term_fields / C05_edges / C05_other_nodes_ignored / C05_minimal_and_full_agree / C05_order_irrelevant'

HEADER = '''From Coq Require Import String List ZArith.
From Hpotk Require Import Base.Result Base.Emit TermId.Model Graph.Model Corr.Graph Ontology.Model Obographs.Model Corr.C05.
Import ListNotations.
Open Scope string_scope.
Open Scope list_scope.'''

PURL = 'http://purl.obolibrary.org/obo/'
NT = {'CLASS': 'TClass', 'INDIVIDUAL': 'TIndividual', 'PROPERTY': 'TProperty'}


def copt(v, f=cstr):
    return 'None' if v is None else f'(Some {f(v)})'


def cbpv(b):
    return ctuple([copt(b.get('pred')), copt(b.get('val'))])


def cmeta(m):
    if m is None:
        return 'None'
    dep = 'FAbsent' if 'deprecated' not in m else ('FTrue' if m['deprecated'] else 'FFalse')
    d = m.get('definition')
    cdef = 'None' if d is None else f'(Some ({copt(d.get("val"))}, {clist([cstr(x) for x in d.get("xrefs", [])])}))'
    syn = clist([f'(mkSyn {copt(s.get("pred"))} {copt(s.get("val"))} {copt(s.get("synonymType"))} {clist([cstr(x) for x in s.get("xrefs", [])])})'
                 for s in m.get('synonyms', [])])
    return (f'(Some (mkMeta {dep} {cdef} {clist([cstr(c) for c in m.get("comments", [])])} {clist([cbpv(b) for b in m.get("basicPropertyValues", [])])} '
            f'{syn} {clist([cstr(x["val"]) for x in m.get("xrefs", [])])}))')


def cnode(n):
    t = 'TAbsent' if 'type' not in n else NT.get(n['type'], 'TOther')
    return f'(mkNode {cstr(n["id"])} {cstr(n.get("lbl", ""))} {t} {cmeta(n.get("meta"))})'


def render_coq(case, obs):
    g = case['json']['graphs'][0]
    nodes = clist([cnode(n) for n in g['nodes']])
    edges = clist([f'(mkEdge {cstr(e["sub"])} {cstr(e["pred"])} {cstr(e["obj"])})' for e in g['edges']])
    gm = g['meta']
    bp = 'None' if 'basicPropertyValues' not in gm else '(Some ' + clist([cbpv(b) for b in gm['basicPropertyValues']]) + ')'
    doc = f'(mkDoc {nodes} {edges} (mkGMeta {copt(gm.get("version"))} {bp}))'
    o = ('(Ok ' + clist([cstr(x) for x in obs['ok']]) + ')') if 'ok' in obs else f'(Err {cexn(obs["err"])})'
    prefixes = ['HP'] if case.get('defaults') else case['prefixes']
    fac = 'FIdx' if case.get('defaults') else GC.FACT[case['factory']]
    return f'(mkOCase5 {cbool(case["full"])} {fac} {clist([cstr(p) for p in prefixes])} {doc} {o})'


def evaluate(chk, cases, tag='cases', shard=60):
    r = chk.run_impl('C05', {'cases': cases, 'workdir': str(chk.work)})
    obs = r['cases']
    bad = [i for i, o in enumerate(obs) if 'crash' in o]
    live = [i for i in range(len(cases)) if i not in set(bad)]
    terms = {i: render_coq(cases[i], obs[i]) for i in live}
    failing = {live[j]: ['loaded ontology differs from the model'] for j in chk.coq_failing(HEADER, [terms[i] for i in live], 'check_o5case', shard=shard, tag=tag)}
    for i in bad:
        failing[i] = ['observer crashed: ' + obs[i]['crash']]
    for i in live:
        if obs[i].get('direct'):
            failing.setdefault(i, [])
            failing[i] += obs[i]['direct']
    return terms, obs, failing


SYN_PRED = ['hasExactSynonym', 'hasRelatedSynonym', 'hasBroadSynonym', 'hasNarrowSynonym', 'hasOtherSynonym']
SYN_TYPE = [None, PURL + 'hp#layperson', PURL + 'hp#abbreviation', PURL + 'hp#uk_spelling', PURL + 'hp#obsolete_synonym', PURL + 'hp#plural_form',
            PURL + 'HP_0034334', PURL + 'hp/x#layperson term', PURL + 'hp#unknown', 'http://other/x#layperson', PURL + 'allelic_requirement', '']


def gen_meta(rng, alt_pool):
    m = {}
    r = rng.random()
    if r < 0.2:
        m['deprecated'] = True
    elif r < 0.45:
        m['deprecated'] = False
    if rng.random() < 0.6:
        m['definition'] = {'val': 'definition text é' if rng.random() < 0.2 else 'def'}
        if rng.random() < 0.6:
            m['definition']['xrefs'] = rng.sample(['PMID:1', 'HPO:probinson', 'ISBN:2'], rng.randint(0, 2))
    if rng.random() < 0.4:
        m['comments'] = ['c%d' % j for j in range(rng.randint(1, 3))]
    bp = []
    for _ in range(rng.choice([0, 0, 1, 2])):
        bp.append({'pred': 'http://www.geneontology.org/formats/oboInOwl#hasAlternativeId', 'val': alt_pool.pop()})
    if rng.random() < 0.3:
        bp.append({'pred': 'http://www.geneontology.org/formats/oboInOwl#hasOBONamespace', 'val': 'human_phenotype'})
    if rng.random() < 0.15:
        bp.append({'pred': 'http://www.geneontology.org/formats/oboInOwl#hasDbXref', 'val': 'HP:7777777'})
    if bp or rng.random() < 0.2:
        rng.shuffle(bp)
        m['basicPropertyValues'] = bp
    if rng.random() < 0.5:
        syns = []
        for _ in range(rng.randint(1, 3)):
            s = {'pred': rng.choice(SYN_PRED), 'val': 'syn %d' % rng.randint(0, 9)}
            ty = rng.choice(SYN_TYPE)
            if ty is not None:
                s['synonymType'] = ty
            if rng.random() < 0.5:
                s['xrefs'] = rng.sample(['PMID:3', 'HPO:skoehler', 'notacurie', 'ORCID:0000-0001-2345-6789'], rng.randint(0, 2))
            syns.append(s)
        m['synonyms'] = syns
    if rng.random() < 0.35:
        m['xrefs'] = [{'val': x} for x in rng.sample(['UMLS:C1', 'SNOMEDCT_US:2', 'MSH:D3'], rng.randint(1, 2))]
    return m


def gen_case(rng, i):
    n = rng.randint(2, 9)
    ids = ['HP_%07d' % k for k in rng.sample(range(1, 60), n)]
    alt_pool = ['HP:%07d' % k for k in rng.sample(range(9000, 9999), 40)]
    nodes, kept_ids = [], []
    for k, cid in enumerate(ids):
        node = {'id': PURL + cid, 'lbl': 'term %s%s' % (cid, ' é' if rng.random() < 0.1 else ''), 'type': 'CLASS'}
        if rng.random() < 0.75:
            node['meta'] = gen_meta(rng, alt_pool)
        nodes.append(node)
        kept_ids.append(cid)
    # nodes that must be ignored
    extra = []
    for cid, mut in (('HP_0100001', 'PROPERTY'), ('HP_0100002', 'INDIVIDUAL'), ('HP_0100003', None), ('MP_0000001', 'CLASS'), ('GO_0000002', 'CLASS'),
                     ('HP_0100004', 'DATATYPE'), ('HPO_0000003', 'CLASS'), ('HPX_0000004', 'CLASS'), ('H_0000005', 'CLASS'), ('hp_0000006', 'CLASS')):
        if rng.random() < 0.5:
            node = {'id': PURL + cid, 'lbl': 'ignored ' + cid}
            if mut is not None:
                node['type'] = mut
            extra.append(node)
    for odd in ('http://example.org/HP_0100005', PURL + 'hp#has_modifier', PURL + 'HP0100006', 'HP_0100007', PURL + 'HP_0100008#x', PURL + 'HP_'):
        if rng.random() < 0.3:
            extra.append({'id': odd, 'lbl': 'odd', 'type': 'CLASS'})
    allnodes = nodes + extra
    rng.shuffle(allnodes)
    # a DAG over the kept ids (+ edges that must be ignored)
    edges = []
    for k in range(1, len(ids)):
        for p in rng.sample(range(k), min(k, rng.choice([1, 1, 2]))):
            edges.append({'sub': PURL + ids[k], 'pred': 'is_a', 'obj': PURL + ids[p]})
    if rng.random() < 0.25 and len(ids) > 3:
        edges = [e for e in edges if e['obj'] != PURL + ids[0]] or edges     # several roots -> owl:Thing
    for _ in range(rng.randint(0, 4)):
        kind = rng.choice(['pred', 'dangling', 'foreign', 'nonpurl', 'ignored-type', 'mirror', 'trailing', 'embedded'])
        a, b = rng.choice(ids), rng.choice(ids)
        if kind == 'pred':
            edges.append({'sub': PURL + a, 'pred': rng.choice(['http://purl.obolibrary.org/obo/BFO_0000051', 'subPropertyOf', 'is_A']), 'obj': PURL + b})
        elif kind == 'dangling':
            edges.append({'sub': PURL + a, 'pred': 'is_a', 'obj': PURL + 'HP_0999999'})
        elif kind == 'foreign':
            edges.append({'sub': PURL + rng.choice(['MP_0000001', 'HPO_0000003', 'HPX_0000004', 'H_0000005']), 'pred': 'is_a', 'obj': PURL + a}
                         if rng.random() < 0.5 else {'sub': PURL + a, 'pred': 'is_a', 'obj': PURL + rng.choice(['MP_0000001', 'HPO_0000003', 'hp_0000006'])})
        elif kind == 'nonpurl':
            edges.append({'sub': 'http://example.org/x', 'pred': 'is_a', 'obj': PURL + b})
        elif kind in ('mirror', 'embedded'):
            # not an OBO PURL, but it ENDS with (or contains) the CURIE of a retained term: must be ignored
            odd_end = ('http://example.org/mirror/' + a) if kind == 'mirror' else ('x' + PURL + a)
            edges.append({'sub': odd_end, 'pred': 'is_a', 'obj': PURL + b} if rng.random() < 0.5 else {'sub': PURL + b, 'pred': 'is_a', 'obj': odd_end})
        elif kind == 'trailing':
            # an OBO PURL of a retained term followed by more text: the pattern still matches its CURIE
            tr = PURL + a + rng.choice(['#x', '/v2', '.owl', '?q=1'])
            if a != b and ids.index(a) > ids.index(b):
                edges.append({'sub': tr, 'pred': 'is_a', 'obj': PURL + b})
            elif a != b:
                edges.append({'sub': PURL + b, 'pred': 'is_a', 'obj': tr})
        else:
            edges.append({'sub': PURL + 'HP_0100001', 'pred': 'is_a', 'obj': PURL + b})
    rng.shuffle(edges)
    if rng.random() < 0.5:
        meta = {'version': rng.choice([PURL + 'hp/releases/2024-04-26/hp.json', 'http://x/2020-01-01/y/2023-10-09/hp.owl', PURL + 'hp/hp.json'])}
        if rng.random() < 0.3:
            meta['basicPropertyValues'] = [{'pred': 'http://www.w3.org/2002/07/owl#versionInfo', 'val': 'ignored'}]
    elif rng.random() < 0.85:
        bp = [{'pred': 'http://purl.org/dc/elements/1.1/creator', 'val': 'x'}, {'pred': 'http://www.w3.org/2002/07/owl#versionInfo', 'val': '2022-12-15'}]
        if rng.random() < 0.3:
            bp.append({'pred': 'http://www.w3.org/2002/07/owl#versionInfo', 'val': 'second'})
        if rng.random() < 0.3:
            rng.shuffle(bp)
        meta = {'basicPropertyValues': bp}
    else:
        meta = {}
    prefixes = ['HP'] if rng.random() < 0.75 else ['HP', 'MP']
    doc = {'graphs': [{'id': PURL + 'hp.json', 'meta': meta, 'nodes': allnodes, 'edges': edges}]}
    return {'json': doc, 'full': i % 2 == 1, 'factory': rng.choice(['idx', 'inc', 'bld']), 'prefixes': prefixes, 'defaults': rng.random() < 0.2}


def shuffled(rng, case):
    g = dict(case['json']['graphs'][0])
    g['nodes'] = list(g['nodes'])
    g['edges'] = list(g['edges'])
    rng.shuffle(g['nodes'])
    rng.shuffle(g['edges'])
    return dict(case, json={'graphs': [g]})


def term_set(r):
    """the order-free part of a rendered result: per-term blocks as a set, ids, edges, root, version"""
    blocks, cur, rest = [], None, []
    for x in r:
        if x.startswith('T|'):
            cur = [x]
            blocks.append(cur)
        elif x[:2] in ('I|', 'E|', 'R|', 'V|'):
            rest.append(x)
            cur = None
        elif cur is not None:
            cur.append(x)
    return sorted(tuple(b) for b in blocks), rest


def dense_probe(chk):
    """beyond what the model evaluates in reasonable time: a hierarchy with more is_a edges than an 8-bit offset counts on
    fewer than 255 terms, loaded through the default factories and compared with the document directly"""
    cases = [{'kind': 'dense', 'n': n, 'seed': chk.rng.randrange(10 ** 6)} for n in ((150,) if chk.tier != 'thorough' else (100, 150, 250))]
    for c, o in zip(cases, chk.run_impl('C05', {'cases': cases, 'workdir': str(chk.work)})['cases']):
        chk.count('dense-probe')
        chk.extra.setdefault('dense_probes', []).append({'nodes': o.get('nodes'), 'edges': o.get('edges'), 'mismatches': o.get('n_mismatches', o.get('crash'))})
        if o.get('n_mismatches') or 'crash' in o:
            chk.report_violation('C05:dense-hierarchy', {'case': c, 'impl': o, 'theorem': 'C05_edges',
                                                         'explanation': 'the hierarchy of the loaded ontology differs from the is_a edges of the document (compared directly, no model); the document is rebuilt from the seed'},
                                 what=f'C05:dense-hierarchy: {o.get("nodes")} terms / {o.get("edges")} is_a edges: {json.dumps(o.get("mismatches", o.get("crash")))[:300]}')


def run(chk):
    rng = chk.rng
    dense_probe(chk)
    cases = GC.load_corpus('C05')
    base = len(cases)
    for i in range(160 if chk.tier == 'quick' else 1600):
        c = gen_case(rng, i)
        cases.append(c)
        c2 = shuffled(rng, c)
        c2['shuffle_of'] = len(cases) - 1
        cases.append(c2)
        # the other loader on the same document
        c3 = dict(c, full=not c['full'])
        c3['other_loader_of'] = len(cases) - 2
        cases.append(c3)
    for c in cases:
        g = c['json']['graphs'][0]
        chk.count('loader:' + ('full' if c['full'] else 'minimal'))
        chk.count('nodes', len(g['nodes']))
        for n in g['nodes']:
            chk.count('node-type:' + n.get('type', 'absent'))
            m = n.get('meta')
            chk.count('deprecated:' + ('no-meta' if m is None else 'absent' if 'deprecated' not in m else str(m['deprecated']).lower()))
        chk.count('version:' + ('iri' if 'version' in g['meta'] else 'bpv' if 'basicPropertyValues' in g['meta'] else 'none'))
        chk.note_case({'full': c['full'], 'prefixes': c['prefixes'], 'nodes': len(g['nodes']), 'edges': len(g['edges']), 'first_node': g['nodes'][0]},
                      nontrivial=True, sample_every=100)
    terms, obs, failing = evaluate(chk, cases)
    for i, c in enumerate(cases):
        j = c.get('shuffle_of')
        if j is not None and 'ok' in obs[i] and 'ok' in obs[j] and term_set(obs[i]['ok']) != term_set(obs[j]['ok']):
            failing.setdefault(i, []).append('the shuffled document loads to a different ontology')
        j = c.get('other_loader_of')
        if j is not None and 'ok' in obs[i] and 'ok' in obs[j]:
            shared = lambda r: [x for x in r if x[:2] in ('T|', 'A|', 'I|', 'E|', 'R|', 'V|')]   # noqa: E731
            if shared(obs[i]['ok']) != shared(obs[j]['ok']):
                failing.setdefault(i, []).append('minimal and full loader disagree on ids / names / alternate ids / graph / version')
    chk.evaluations = len(cases)
    chk.traces = len(cases)
    chk.rule = ('generated HPO-like documents rendered to real JSON files: 2-9 CLASS nodes with PURL ids (75% with meta: deprecated absent/true/false, definition with/without '
                'xrefs, comments, alternate ids among other basicPropertyValues, synonyms of all categories and 12 synonymType spellings with xrefs, xrefs), PROPERTY / INDIVIDUAL '
                '/ untyped / unknown-type nodes, foreign prefixes, non-PURL and odd ids; a multi-parent DAG of is_a edges (25% multi-root) plus other predicates, dangling, foreign '
                'and non-PURL edges; version as IRI (with two dates / without date) or as #versionInfo property or absent; prefixes {HP} / {HP, MP}; each document through the '
                'minimal and the full loader, 3 graph factories or the shared defaults, and once more with nodes and edges shuffled; the flattened ontology (terms in order with '
                'all fields, id listing, edges, root, version) is compared with the model; shuffle-invariance and minimal/full agreement also checked directly')
    if failing:
        report(chk, cases, obs, failing)


def shrink(chk, case):
    cur = {k: v for k, v in case.items() if k not in ('shuffle_of', 'other_loader_of')}
    for _ in range(40):
        g = cur['json']['graphs'][0]
        cands = []
        for i in range(len(g['nodes'])):
            cands.append(dict(cur, json={'graphs': [dict(g, nodes=g['nodes'][:i] + g['nodes'][i + 1:])]}))
        for i in range(len(g['edges'])):
            cands.append(dict(cur, json={'graphs': [dict(g, edges=g['edges'][:i] + g['edges'][i + 1:])]}))
        if not cands:
            break
        try:
            _, _, f = evaluate(chk, cands, tag='shrink')
        except Exception:
            break
        if not f:
            break
        cur = cands[sorted(f)[0]]
    return cur


def model_answer(chk, term):
    f = chk.work / 'model_answer.v'
    f.write_text(HEADER + f'\nEval vm_compute in (o5_model_answer {term}).\n')
    r = run_coqc(f, timeout=120, cwd=chk.work)
    return (r.stdout + r.stderr)[-2500:]


def sig_of(case, obs):
    g = case['json']['graphs'][0]
    if any(n.get('meta') is not None and n['meta'].get('deprecated') is False for n in g['nodes']):
        return 'C05:deprecated-false'
    if 'err' in obs:
        return 'C05:raises'
    return 'C05:content'


def report(chk, cases, obs, failing, limit=3, examine=8):
    seen = {}
    for i in sorted(failing, key=lambda j: len(json.dumps(cases[j])))[:examine]:
        if failing[i] and failing[i][0].startswith(('the shuffled', 'minimal and full')):
            small = cases[i]
        else:
            small = shrink(chk, cases[i])
        terms, o, f = evaluate(chk, [small], tag='final')
        sig = sig_of(small, o[0])
        if sig in seen or len(seen) >= limit:
            continue
        seen[sig] = 1
        chk.report_violation(sig, {'case': small, 'impl': o[0], 'model': model_answer(chk, terms[0]) if 0 in terms else 'n/a',
                                   'problems': f.get(0, failing[i])[:4], 'theorem': THEOREM, 'failing_cases_total': len(failing)},
                             what=f'{sig}: {f.get(0, failing[i])[0]} | loader={"full" if small["full"] else "minimal"} document={json.dumps(small["json"])}'[:1200])


def replay(chk, path):
    rp = json.loads(open(path).read())
    cases = rp['cases'] if 'cases' in rp else [rp['case']]
    for case in cases:
        if case.get('kind') == 'dense':          # a probe compared with the document directly: rebuilt from its seed
            o = chk.run_impl('C05', {'cases': [case], 'workdir': str(chk.work)})['cases'][0]
            log('impl now :', json.dumps(o)[:1500])
            if o.get('n_mismatches') or 'crash' in o:
                chk.report_violation(rp.get('signature', 'C05:replay'), {'case': case, 'impl': o}, what='replayed probe still fails')
            continue
        terms, obs, f = evaluate(chk, [case], tag='replay')
        chk.note_case({'replay': path})
        log('impl now :', json.dumps(obs[0])[:1500])
        log('model    :', model_answer(chk, terms[0]) if 0 in terms else 'n/a')
        log('problems :', f.get(0, []))
        if f:
            chk.report_violation(rp.get('signature', 'C05:replay'), {'case': case, 'impl': obs[0], 'problems': f[0]}, what='replayed case still fails')
