"""C10 - precomputed Resnik similarity is the IC of the most informative common ancestor."""
import json

import gen_graph as G
import graphcorr as GC
from common import cstr, cnat, cz, clist, ctuple, cexn, log, run_coqc

TRUSTED_BASE = [
    'IC values are dyadic floats (multiples of 1/8) embedded exactly into Z; max, > 0 and equality of binary64 are exact on them',
    'frozenset / list iteration orders of the branch and pair loops are modelled by the lists of the helper model (proved irrelevant: loop_invariant)',
    'graph = proved C01 model, helpers = C18 model, container = C15 model',
]
ASSUMPTIONS = ['ontology terms are parsed term ids (no ":" in the prefix) so that CURIE values identify terms',
               'HP:0000118 is a node (otherwise the precomputation raises ValueError: C10_no_phenotypic_abnormality)']
THEOREM = 'C10_precomputed_resnik / C10_mica_value_determined / C10_pair_loop'

HEADER = '''From Coq Require Import String List ZArith.
From Hpotk Require Import Base.Result Base.Emit TermId.Model Graph.Model Corr.Graph Sim.Model Resnik.Model Corr.C10.
Import ListNotations.
Open Scope string_scope.
Open Scope list_scope.
Definition ktable (tbl : list string) : list key := map (fun s => match from_curie s with Ok t => tkey t | Err _ => key0 end) tbl.
Definition kk (ks : list key) (i : nat) : key := nth i ks key0.'''


def render_case(case, obs):
    t = GC.Table()
    edges = clist([ctuple([t.s(a), t.s(b)]) for a, b in case['edges']])
    ic = clist([ctuple([t.k(k), cz(v)]) for k, v in case['ic']])
    if 'ok' in obs:
        o = obs['ok']
        reads = clist([ctuple([t.s(a), t.s(b), cz(v)]) for a, b, v in o['reads']])
        items = clist([ctuple([t.s(a), t.s(b), cz(v)]) for a, b, v in o['items']])
        r = f'(Ok ({reads}, {cnat(o["len"])}, {items}))'
    else:
        r = f'(Err {cexn(obs["err"])})'
    tbl = clist([cstr(x) for x in t.items])
    return (f'(let tbl := {tbl} in let ks := ktable tbl in let s := tb tbl in let k := kk ks in '
            f'mkRCase {GC.FACT[case["factory"]]} {edges} {ic} {r})')


def evaluate(chk, cases, tag='cases', shard=40):
    obs = chk.run_impl('C10', {'cases': cases})['cases']
    bad = [i for i, o in enumerate(obs) if 'crash' in o]
    live = [i for i in range(len(cases)) if i not in set(bad)]
    terms = {i: render_case(cases[i], obs[i]) for i in live}
    failing = [live[j] for j in chk.coq_failing(HEADER, [terms[i] for i in live], 'check_rcase', shard=shard, tag=tag)]
    return terms, obs, sorted(set(failing) | set(bad))


IDS = ['HP:%07d' % i for i in range(2, 40)] + ['HP:0000119', 'HP:0000117', 'HP:0001000']


def gen_case(rng, n):
    """root HP:0000001 > HP:0000118 > 1-4 branch tops > multi-parent terms, some shared between branches; a sibling branch of PA"""
    ids = rng.sample(IDS, n)
    nb = rng.randint(1, min(4, n))
    tops, rest = ids[:nb], ids[nb:]
    edges = [('HP:0000118', 'HP:0000001')] + [(t, 'HP:0000118') for t in tops]
    placed = list(tops)
    for x in rest:
        r = rng.random()
        if r < 0.1:
            edges.append((x, 'HP:0000001'))          # outside Phenotypic abnormality
            continue
        if r < 0.15:
            edges.append((x, 'HP:0000118'))          # another (leaf) branch top
            placed.append(x)
            continue
        k = 1 if rng.random() < 0.5 else 2 if rng.random() < 0.8 else 3
        ps = rng.sample(placed, min(k, len(placed)))
        edges += [(x, p) for p in ps]
        placed.append(x)
    if rng.random() < 0.07:
        edges = [(a, b if b != 'HP:0000118' else 'HP:0000001') for a, b in edges if a != 'HP:0000118']   # no PA at all
    edges = list(dict.fromkeys(edges))
    rng.shuffle(edges)
    nodes = sorted({x for e in edges for x in e})
    mode = rng.choice(['monotone', 'random', 'sparse', 'zero', 'negative'])
    depth = {}

    def d(x):
        if x not in depth:
            ps = [b for a, b in edges if a == x]
            depth[x] = 0 if not ps else 1 + max(d(p) for p in ps)
        return depth[x]
    ic = []
    for x in nodes:
        if mode == 'monotone':
            v = d(x) * 8 + rng.randint(0, 3)
        elif mode == 'random':
            v = rng.randint(0, 40)
        elif mode == 'sparse':
            if rng.random() < 0.5:
                continue
            v = rng.randint(0, 40)
        elif mode == 'zero':
            v = 0
        else:
            v = rng.randint(-16, 24)
        ic.append([x, v])
    if rng.random() < 0.3:
        ic.append(['HP:9999999', 80])     # an entry for a term that is not in the ontology
    return {'factory': rng.choice(['idx', 'inc', 'bld']), 'edges': [list(e) for e in edges], 'ic': ic, 'mode': mode}


def run(chk):
    rng = chk.rng
    cases = GC.load_corpus('C10')
    n = 260 if chk.tier == 'quick' else 2500
    for i in range(n):
        cases.append(gen_case(rng, rng.randint(1, 5) if i % 3 == 0 else rng.randint(4, 11)))
    for c in cases:
        chk.count('ic:' + c.get('mode', 'corpus'))
        chk.count('nodes:%d' % len({x for e in c['edges'] for x in e}))
        chk.note_case(c, nontrivial=len(c['edges']) >= 3, sample_every=80)
    terms, obs, failing = evaluate(chk, cases)
    chk.evaluations = sum(len(o['ok']['reads']) for o in obs if 'ok' in o) + sum(1 for o in obs if 'err' in o)
    chk.traces = len(cases)
    chk.extra['cases_that_raise'] = sum(1 for o in obs if 'err' in o)
    chk.rule = ('random multi-parent DAGs: HP:0000001 > HP:0000118 > 1-4 branch tops, terms with 1-3 parents anywhere below (shared between branches), terms outside '
                'Phenotypic abnormality, 7% ontologies without HP:0000118; IC maps monotone / random / sparse (missing entries) / all-zero / with negative values / with '
                'entries for foreign terms (dyadic, scaled by 8); one real factory per case. Read back: get_similarity for ALL ordered pairs of nodes, len, sorted items - '
                'compared with the model. evaluations = similarity reads compared')
    if failing:
        report(chk, cases, failing)


def shrink(chk, case):
    cur = case
    for _ in range(25):
        es = cur['edges']
        cands = [dict(cur, edges=es[:i] + es[i + 1:]) for i in range(len(es)) if len(es) > 1]
        cands += [dict(cur, ic=cur['ic'][:i] + cur['ic'][i + 1:]) for i in range(len(cur['ic']))]
        if not cands:
            break
        try:
            _, _, f = evaluate(chk, cands, tag='shrink')
        except Exception:
            break
        if not f:
            break
        cur = cands[f[0]]
    return cur


def model_answer(chk, term):
    f = chk.work / 'model_answer.v'
    f.write_text(HEADER + f'\nEval vm_compute in (rmodel_answer {term}).\n')
    r = run_coqc(f, timeout=120, cwd=chk.work)
    return (r.stdout + r.stderr)[-2500:]


def report(chk, cases, failing, limit=2):
    n = 0
    for i in sorted(failing, key=lambda j: len(json.dumps(cases[j])))[:limit]:
        small = shrink(chk, cases[i])
        terms, obs, f = evaluate(chk, [small], tag='final')
        o = obs[0]
        compact = {'len': o['ok']['len'], 'items': o['ok']['items']} if 'ok' in o else o
        sig = 'C10:%s' % ('raises' if 'err' in o else 'similarity')
        chk.report_violation(sig + ':%d' % n, {'case': small, 'impl': compact, 'model': model_answer(chk, terms[0]) if 0 in terms else 'n/a',
                                               'theorem': THEOREM, 'failing_cases_total': len(failing)},
                             what=f'{sig}: edges={json.dumps(small["edges"])} ic={json.dumps(small["ic"])} (values scaled by 8)'[:900])
        n += 1


def replay(chk, path):
    rp = json.loads(open(path).read())
    cases = rp['cases'] if 'cases' in rp else [rp['case']]
    for case in cases:
        terms, obs, f = evaluate(chk, [case], tag='replay')
        chk.note_case(case)
        o = obs[0]
        log('impl now :', json.dumps({'len': o['ok']['len'], 'items': o['ok']['items']} if 'ok' in o else o)[:2000])
        log('model    :', model_answer(chk, terms[0]) if 0 in terms else 'n/a')
        log('agree    :', not f)
        if f:
            chk.report_violation(rp.get('signature', 'C10:replay'), {'case': case, 'impl': o}, what='replayed case still fails')
