"""Small document generators shared by the C12 loader-history exploration."""
PURL = 'http://purl.obolibrary.org/obo/'


def obographs_doc(rng, prefix, n):
    ids = rng.sample(range(1, 50), n)
    nodes = [{'id': PURL + '%s_%07d' % (prefix, i), 'lbl': 'term %d' % i, 'type': 'CLASS',
              'meta': {'basicPropertyValues': [{'pred': 'http://www.geneontology.org/formats/oboInOwl#hasAlternativeId', 'val': '%s:%07d' % (prefix, 9000 + i)}]}}
             for i in ids]
    edges = [{'sub': PURL + '%s_%07d' % (prefix, ids[k]), 'pred': 'is_a', 'obj': PURL + '%s_%07d' % (prefix, ids[rng.randrange(k)])} for k in range(1, n)]
    return {'graphs': [{'id': 'x', 'meta': {'version': PURL + 'hp/releases/2024-0%d-01/hp.json' % (1 + n % 9)}, 'nodes': nodes, 'edges': edges}]}


def hpoa_text(k):
    rows = ['#description: "test"', '#version: 2024-01-0%d' % k,
            'database_id\tdisease_name\tqualifier\thpo_id\treference\tevidence\tonset\tfrequency\tsex\tmodifier\taspect\tbiocuration']
    for j in range(k + 1):
        rows.append(f'OMIM:10000{j}\tDisease {j}\t\tHP:000000{j + 2}\tPMID:{j + 1}\tPCS\t\t{j + 1}/{j + k + 2}\t\t\tP\tHPO:x[2020-01-01]')
    return '\n'.join(rows) + '\n'


def hpoa_rich(k):
    """an HPOA file whose parsed frequencies depend on the loader configuration (cohort size, salvaging of negated
    frequencies): frequency terms, percentages, negated lines, n/m ratios, empty frequency"""
    rows = ['#description: "test"', '#version: 2024-02-0%d' % k,
            'database_id\tdisease_name\tqualifier\thpo_id\treference\tevidence\tonset\tfrequency\tsex\tmodifier\taspect\tbiocuration']
    freqs = ['HP:0040281', '90%', '3/7', '', 'HP:0040283', '12.5%', '0/5', 'HP:0040282']
    for j in range(k + 2):
        for i in range(3):
            f = freqs[(j * 3 + i + k) % len(freqs)]
            neg = 'NOT' if (i + j + k) % 3 == 0 else ''
            rows.append(f'OMIM:10000{j}\tDisease {j}\t{neg}\tHP:000000{i + 2}\tPMID:{j + 1}\tPCS\t\t{f}\t\t\tP\tHPO:x[2020-01-01]')
    return '\n'.join(rows) + '\n'


def chained_docs(rng, prefix):
    """documents A and B where the subject of A's LAST is_a edge is the subject of B's FIRST is_a edge, at different
    positions of the two sorted node arrays (state kept by a shared graph factory between loads shows)"""
    def node(i):
        return {'id': PURL + '%s_%07d' % (prefix, i), 'lbl': 'term %d' % i, 'type': 'CLASS'}

    def edge(a, b):
        return {'sub': PURL + '%s_%07d' % (prefix, a), 'pred': 'is_a', 'obj': PURL + '%s_%07d' % (prefix, b)}
    shared = 50
    a_ids = [1, 2, 3, shared]
    b_ids = [10, 20, 30, 40, 45, shared, 60]
    doc_a = {'graphs': [{'id': 'a', 'meta': {}, 'nodes': [node(i) for i in a_ids], 'edges': [edge(2, 1), edge(3, 1), edge(shared, 2)]}]}
    doc_b = {'graphs': [{'id': 'b', 'meta': {}, 'nodes': [node(i) for i in b_ids],
                         'edges': [edge(shared, 10), edge(20, 10), edge(30, 20), edge(40, 20), edge(45, 30), edge(60, 45)]}]}
    return [doc_a, doc_b, doc_a]


def slim_docs(prefix):
    """document A declares every endpoint of its is_a edges; document B is a slim of A: some nodes are gone but the
    edges touching them are still there (dangling).  State shared between loads (an id pool, a node cache) shows when B
    is loaded before and after A."""
    def node(i):
        return {'id': PURL + '%s_%07d' % (prefix, i), 'lbl': 'term %d' % i, 'type': 'CLASS'}

    def edge(a, b):
        return {'sub': PURL + '%s_%07d' % (prefix, a), 'pred': 'is_a', 'obj': PURL + '%s_%07d' % (prefix, b)}
    # ids no other generated document declares (the random documents use 1..49, the chained ones 1..60): what an earlier
    # case of the same process loaded must not mask the effect
    b = 600
    edges = [edge(b + 2, b + 1), edge(b + 3, b + 1), edge(b + 4, b + 2), edge(b + 4, b + 3), edge(b + 5, b + 4), edge(b + 6, b + 1), edge(b + 7, b + 6)]
    doc_a = {'graphs': [{'id': 'a', 'meta': {}, 'nodes': [node(b + i) for i in (1, 2, 3, 4, 5, 6, 7)], 'edges': edges}]}
    doc_b = {'graphs': [{'id': 'b', 'meta': {}, 'nodes': [node(b + i) for i in (1, 2, 4, 5)], 'edges': edges}]}
    return [doc_a, doc_b]
