"""C04 - TermId parsing / equality / hashing / ordering.  Correspondence driver."""
import itertools
import json

from common import (cstr, cnat, cbool, clist, ctuple, copt, cres, log)

HEADER = '''From Coq Require Import String List ZArith.
From Hpotk Require Import Base.Result Base.Emit Corr.C04.
Import ListNotations.
Open Scope string_scope.'''

TRUSTED_BASE = [
    'CPython str slicing/index/comparison are modelled by Coq string functions over UTF-8 bytes '
    '(code-point order == byte order); hash((prefix,id)) is an abstract function H of the two strings',
    'numpy.unique and bisect.bisect_left are modelled (insertion sort with de-duplication; the bisect loop with fuel)',
    'TRANSLATOR (harness/translate_termid.py, fail-closed Python-ast -> Gallina): from_curie, value, __eq__, __lt__, __hash__ / _calculate_hash and the accessors of both concrete '
    'classes are translated from src/hpotk/model/_term_id.py on every run and proved equal to TermId.Model (work/C04/TermIdGen.v); trusted: its reading of str slicing, + == < on str, '
    'str.index, isinstance(other, TermId) and hash((a, b))',
]
ASSUMPTIONS = ['DefaultTermId/SimpleTermId are constructed with 0 <= idx (negative idx uses Python wrap-around slicing, not modelled)',
               'strings contain no lone surrogates and no NUL']

ALPHA = [':', '_', 'A', 'B', '0']
UNI = ['é', 'ß', '中', 'Ω', ' ', '😀', 'z', 'a', 'Z', '9', '1', ' ', '-', '.', '/', '#', '"', "'", '\\', '\t']


def byte_idx(s, i):
    """code-point index of Python -> byte index of the UTF-8 model string"""
    if i <= len(s):
        return len(s[:i].encode('utf-8'))
    return len(s.encode('utf-8')) + (i - len(s))


def cobj(spec):
    if spec[0] == 'curie':
        return f'(OCurie {cstr(spec[1])})'
    if spec[0] == 'default':
        return f'(ODefault {cstr(spec[1])} {cnat(byte_idx(spec[1], spec[2]))})'
    return f'(OSimple {cstr(spec[1])} {cnat(byte_idx(spec[1], spec[2]))})'


def ctriple(t):
    return ctuple([cstr(x) for x in t])


def strings_upto(n, alpha=ALPHA):
    for k in range(n + 1):
        for tup in itertools.product(alpha, repeat=k):
            yield ''.join(tup)


def delim_idx(s):
    i = s.find(':')
    return i if i >= 0 else s.find('_')


def rand_str(rng, maxlen=8):
    n = rng.randint(0, maxlen)
    pool = ALPHA * 3 + UNI
    return ''.join(rng.choice(pool) for _ in range(n))


def rand_curie(rng, maxlen=8):
    while True:
        s = rand_str(rng, maxlen)
        if ':' in s or '_' in s:
            return s


def as_variants(rng, s):
    """the same CURIE through from_curie / DefaultTermId / SimpleTermId (explicit delimiter index)"""
    i = delim_idx(s)
    k = rng.randrange(3)
    return [['curie', s], ['default', s, i], ['simple', s, i]][k]


def gen(chk):
    rng = chk.rng
    thorough = chk.tier == 'thorough'
    parse, pairs, sorts = [], [], []
    L = 6 if thorough else 5
    for s in strings_upto(L):
        parse.append(['curie', s])
    # direct constructors with every delimiter position (also positions that are not a delimiter)
    for s in strings_upto(3):
        for i in range(len(s) + 2):
            parse.append(['default', s, i])
            parse.append(['simple', s, i])
    for _ in range(600 if not thorough else 3000):
        parse.append(['curie', rand_str(rng, 10)])
    # pairs: all ordered pairs of parseable strings of length <= 3 (<= 4 thorough: sampled 1/2)
    P = 4 if thorough else 3
    base = [s for s in strings_upto(P) if ':' in s or '_' in s]
    for a in base:
        for b in base:
            if P == 4 and rng.random() < 0.9:
                continue
            pairs.append([as_variants(rng, a), as_variants(rng, b)])
    # equal-by-construction pairs through different delimiters / classes / stored strings
    for _ in range(1500 if not thorough else 6000):
        p = ''.join(rng.choice(['A', 'B', '0', '_', 'é', 'z']) for _ in range(rng.randint(0, 3)))
        i = ''.join(rng.choice(['A', 'B', '0', '_', ':', 'é', 'z']) for _ in range(rng.randint(0, 3)))
        forms = [['curie', p + ':' + i], ['default', p + ':' + i, len(p)],
                 ['simple', p + ':' + i, len(p)], ['default', p + '#' + i, len(p)], ['simple', p + '_' + i, len(p)]]
        if ':' not in i and '_' not in p and ':' not in p:
            forms.append(['curie', p + '_' + i])
        if '_' in p:
            forms = [f for f in forms if not (f[0] == 'curie' and ':' not in f[1])]
        a, b = rng.choice(forms), rng.choice(forms)
        pairs.append([a, b])
    for _ in range(6000 if not thorough else 20000):
        a, b = rand_curie(rng), rand_curie(rng)
        if rng.random() < 0.3:     # near misses: share a prefix or id
            b = a[:rng.randint(0, len(a))] + rand_str(rng, 3)
            if ':' not in b and '_' not in b:
                b += ':'
        pairs.append([as_variants(rng, a), as_variants(rng, b)])
    # HPO-shaped ids and what a normalising id class would take for them: parsed, and compared with the plain spelling
    import gen_graph as G
    for base_id in ['HP:0001250', 'HP:0000001', 'MONDO:0000001', 'HP:0123456', 'OMIM:100000', 'HP:007']:
        for x in [base_id] + G.lookalikes(base_id):
            parse.append(['curie', x])
            pairs.append([['curie', base_id], ['curie', x]])
            pairs.append([['curie', x], ['simple', base_id, base_id.index(':')]])
            pairs.append([['default', x, x.index(':')], ['curie', base_id.replace(':', '_', 1)]])
    # sorting / bisect
    pool_small = ['HP:1', 'HP_1', 'HP:10', 'HP:9', 'HP:010', 'MP:1', 'owl:Thing', 'HP:', ':1', '_', 'HP_2:3', 'H:P1',
                  'hp:1', 'HPé:1', 'HP:é', 'HP:0000001', 'HP:0000118', 'A_B', 'A:B', 'A_:B', 'A__B']
    for _ in range(200 if not thorough else 1000):
        n = rng.randint(0, 12)
        l = [rng.choice(pool_small) if rng.random() < 0.7 else rand_curie(rng, 5) for _ in range(n)]
        probes = list(dict.fromkeys(l[:6] + [rng.choice(pool_small) for _ in range(4)] + [rand_curie(rng, 4) for _ in range(2)]))
        sorts.append({'l': l, 'probes': probes})
    return {'parse': parse, 'pairs': pairs, 'sorts': sorts}


def render(payload, obs):
    cases, meta = [], []
    for spec, (first, again) in zip(payload['parse'], obs['parse']):
        cases.append(f'CParse {cobj(spec)} {cres(first, ctriple)} {cres(again, ctriple)}')
        meta.append({'kind': 'parse', 'input': spec, 'impl': {'first': first, 'again': again}})
    for (a, b), o in zip(payload['pairs'], obs['pairs']):
        if isinstance(o, dict):       # a member the model parses was rejected by the implementation: a parse case
            cases.append(f'CParse {cobj(o["spec"])} {cres({"err": o["err"]}, ctriple)} {cres({"err": o["err"]}, ctriple)}')
            meta.append({'kind': 'parse', 'input': o['spec'], 'impl': {'first': {'err': o['err']}, 'again': {'err': o['err']}}})
            continue
        cases.append(f'CPair {cobj(a)} {cobj(b)} {cbool(o[0])} {cbool(o[1])} {cbool(o[2])} {cbool(o[3])}')
        meta.append({'kind': 'pair', 'input': [a, b], 'impl': {'eq': o[0], 'a<b': o[1], 'b<a': o[2], 'hash_eq': o[3]}})
    for s, o in zip(payload['sorts'], obs['sorts']):
        if 'err' in o:
            cases.append(f'CParse {cobj(o["spec"])} {cres({"err": o["err"]}, ctriple)} {cres({"err": o["err"]}, ctriple)}')
            meta.append({'kind': 'parse', 'input': o['spec'], 'impl': {'first': {'err': o['err']}, 'again': {'err': o['err']}}})
            continue
        probes = clist([ctuple([cstr(x), cnat(bl), copt(io, cnat)]) for x, bl, io in o['probes']])
        cases.append(f'CSort {clist([cstr(x) for x in s["l"]])} {clist([cstr(x) for x in o["sorted"]])} '
                     f'{clist([cstr(x) for x in o["unique"]])} {probes}')
        meta.append({'kind': 'sort', 'input': s, 'impl': o})
    return cases, meta


THEOREM_FOR = {'parse': 'C04_parse_ok_iff / C04_parse_split / C04_value_reparse',
               'pair': 'C04_eq_iff / C04_eq_hash / C04_lt_strict_total / C04_lt_lex',
               'sort': 'C04_sort_canonical / C04_bisect_finds'}


def evaluate(chk, payload, tag='cases'):
    obs = chk.run_impl('C04', payload)
    cases, meta = render(payload, obs)
    failing = chk.coq_failing(HEADER, cases, 'check_case', shard=2500, tag=tag)
    return cases, meta, failing


def size_of(m):
    return len(json.dumps(m['input']))


def run(chk):
    import translate_termid
    from common import REPO
    broken_tie = chk.translation_tie(translate_termid.translate, REPO / 'src' / 'hpotk' / 'model' / '_term_id.py', 'TermIdGen.v')
    payload = gen(chk)
    cases, meta, failing = evaluate(chk, payload)
    for m in meta:
        k = m['kind']
        chk.count(k)
        nontrivial = True
        if k == 'parse':
            s = m['input'][1]
            nontrivial = (':' in s) or ('_' in s)
            chk.count('parse:' + ('ok' if 'ok' in m['impl']['first'] else 'err'))
        elif k == 'pair':
            chk.count('pair:eq' if m['impl']['eq'] else 'pair:ne')
        chk.note_case(m['input'], nontrivial=nontrivial, sample_every=4000)
    chk.rule = ('parse: all strings over {: _ A B 0} up to length %d + every (string<=3, idx) through both '
                'constructors + random unicode; pairs: all ordered pairs of parseable strings of length <= 3 '
                '(sampled at 4 in thorough) mixing from_curie/DefaultTermId/SimpleTermId + equal-by-construction '
                'pairs + random pairs with near misses; sort: random lists with repeats and both delimiters with '
                'bisect probes; the methods of TermId / DefaultTermId / SimpleTermId are also TRANSLATED from the source text and proved equal to the model.  non-trivial = contains a delimiter (parse) / any pair / any list; distinct by digest of the input'
                % (6 if chk.tier == 'thorough' else 5))
    chk.exhaustive = True
    if failing:
        # report the smallest failing case of each kind
        by_kind = {}
        for i in failing:
            by_kind.setdefault(meta[i]['kind'], []).append(i)
        for k, idxs in by_kind.items():
            i = min(idxs, key=lambda j: size_of(meta[j]))
            chk.report_violation(
                f'C04:{k}', {'case': meta[i], 'coq_case': cases[i], 'theorem': THEOREM_FOR[k],
                             'failing_cases_of_this_kind': len(idxs),
                             'explanation': 'the implementation observation differs from the value the proved model fixes'},
                what=f'TermId {k} observation differs from the model on {json.dumps(meta[i]["input"])}')
    finish_tie(chk, broken_tie)


def finish_tie(chk, broken_tie):
    if broken_tie:
        chk.report_broken_tie('C04:translation', broken_tie, 'Lemmas from_curie_src_ok / accessors_src_ok / value_src_ok / eq_src_ok / lt_src_ok / hash_src_ok (work/C04/TermIdGen.v)',
                              'C04_parse_ok_iff / C04_eq_iff / C04_eq_hash / C04_lt_strict_total')


def replay(chk, path):
    rp = json.loads(open(path).read())
    m = rp['case']
    payload = {'parse': [], 'pairs': [], 'sorts': []}
    payload[{'parse': 'parse', 'pair': 'pairs', 'sort': 'sorts'}[m['kind']]].append(m['input'])
    cases, meta, failing = evaluate(chk, payload, tag='replay')
    chk.note_case(m['input'])
    chk.note_case({'replay': path})
    log('replay input :', json.dumps(m['input']))
    log('impl now     :', json.dumps(meta[0]['impl']))
    log('impl then    :', json.dumps(m['impl']))
    log('model agrees :', not failing)
    if failing:
        chk.report_violation(rp.get('signature', 'C04:replay'), {'case': meta[0], 'coq_case': cases[0], 'theorem': rp.get('theorem')},
                             what='replayed case still fails')
