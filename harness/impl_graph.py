"""Observation of the real graph factories / graph classes (C01, C02, C03, C14)."""
import warnings

warnings.simplefilter('ignore')

import numpy as np  # noqa: E402

from hpotk.model import TermId, Identified  # noqa: E402
from hpotk.graph import CsrIndexedGraphFactory, IncrementalCsrGraphFactory  # noqa: E402
from hpotk.graph._factory import CsrGraphFactory  # noqa: E402


class Ident(Identified):
    def __init__(self, tid):
        self._tid = tid

    @property
    def identifier(self):
        return self._tid


def exn_name(e):
    n = type(e).__name__
    return n if n in ('ValueError', 'IndexError', 'KeyError', 'TypeError') else 'Other:' + n


FACTORIES = {'idx': CsrIndexedGraphFactory, 'inc': IncrementalCsrGraphFactory, 'bld': CsrGraphFactory}
QUERY = {'P': 'get_parents', 'C': 'get_children', 'A': 'get_ancestors', 'D': 'get_descendants'}
PRED = {'P': 'is_parent_of', 'C': 'is_child_of', 'A': 'is_ancestor_of', 'D': 'is_descendant_of'}
IDXQ = {'P': 'get_parents_idx', 'C': 'get_children_idx', 'A': 'get_ancestor_idx', 'D': 'get_descendant_idx'}

OTHERS = {'none': None, 'int': 5, 'float': 3.5, 'bytes': b'HP:1', 'tuple': ('HP:1',), 'list': ['HP:1'], 'bool': True}


class UserTermId(TermId):
    """a term id class written by a user of the library: only the two abstract properties, everything else (==, hash, <,
    value) inherited from hpotk.TermId - whatever concrete class produced it, it is the id (prefix, id)"""

    def __init__(self, prefix, id_):
        self._p, self._i = prefix, id_

    @property
    def prefix(self):
        return self._p

    @property
    def id(self):
        return self._i


def user_tid(curie):
    t = TermId.from_curie(curie)
    return UserTermId(t.prefix, t.id)


def mkarg(spec):
    kind, v = spec
    if kind == 'str':
        return v
    if kind == 'tid':
        return TermId.from_curie(v)
    if kind == 'utid':
        return user_tid(v)
    if kind == 'uident':
        return Ident(user_tid(v))
    if kind == 'ident':
        return Ident(TermId.from_curie(v))
    if kind in ('oterm', 'cterm'):
        # an identified object that happens to be a term (obsolete / current) carrying that id: only its identifier counts
        from hpotk.model import MinimalTerm
        return MinimalTerm.create_minimal_term(TermId.from_curie(v), 'some term', [], kind == 'oterm')
    return OTHERS[v]


def mkint(spec):
    """['i', n] python int, ['np', n] numpy int64"""
    return int(spec[1]) if spec[0] == 'i' else np.int64(spec[1])


def vals(it):
    return sorted(t.value for t in it)


def do_call(g, c):
    k = c[0]
    if k == 'query':
        return vals(getattr(g, QUERY[c[1]])(mkarg(c[2]), include_source=c[3]))
    if k == 'query1':          # a caller that asks for the first item only (next(), any(), `in`): used with arguments that must be rejected
        first = next(iter(getattr(g, QUERY[c[1]])(mkarg(c[2]), include_source=c[3])), None)
        return [] if first is None else [first.value]
    if k == 'pred':
        return bool(getattr(g, PRED[c[1]])(mkarg(c[2]), mkarg(c[3])))
    if k == 'leaf':
        return bool(g.is_leaf(mkarg(c[1])))
    if k == 'contains':
        return bool(TermId.from_curie(c[1]) in g)
    if k == 'nodes':
        return vals(iter(g))
    if k == 'root':
        return g.root.value
    if k == 'node_to_idx':
        r = g.node_to_idx(TermId.from_curie(c[1]))
        return None if r is None else int(r)
    if k == 'idx_to_node':
        return g.idx_to_node(mkint(c[1])).value
    if k == 'root_idx':
        return int(g.root_idx)
    if k == 'idx_query':
        return sorted(int(x) for x in getattr(g, IDXQ[c[1]])(mkint(c[2])))
    if k == 'idx_pred':
        return bool(getattr(g, PRED[c[1]] + '_idx')(mkint(c[2]), mkint(c[3])))
    raise AssertionError(k)


_SHARED = {}
_COUNT = [0]


def used_factory(kind, edges):
    """every second graph is built by a factory instance that has built other graphs before - the previous graphs of the
    run and, right before this one, a look-alike (same number of nodes, same first and last node, the nodes in between
    at other indices): construction must depend on the edge list only"""
    fac = _SHARED.setdefault(kind, FACTORIES[kind]())
    nodes = sorted({t for e in edges for t in e})
    if len(nodes) >= 4:
        gone = nodes[-2]
        new = TermId.from_curie(nodes[0].prefix + ':' + nodes[0].id + '!')
        if new not in nodes:
            try:
                fac.create_graph([(new if s == gone else s, new if o == gone else o) for s, o in edges])
            except Exception:
                pass
    return fac


def observe_case(case):
    edges = [(TermId.from_curie(s), TermId.from_curie(o)) for s, o in case['edges']]
    _COUNT[0] += 1
    try:
        fac = used_factory(case['factory'], edges) if _COUNT[0] % 2 == 0 else FACTORIES[case['factory']]()
        g = fac.create_graph(edges)
    except ValueError:
        return {'created': False, 'results': []}
    out = []
    for c in case['calls']:
        try:
            out.append({'ok': do_call(g, c)})
        except Exception as e:
            out.append({'err': exn_name(e)})
    return {'created': True, 'results': out}


def observe(payload):
    res = []
    for case in payload['cases']:
        try:
            res.append(observe_scale(case) if case.get('kind') == 'scale' else observe_case(case))
        except Exception as e:
            res.append({'crash': exn_name(e) + ': ' + str(e)[:300]})
    return {'cases': res}


def warm_up(obj, nodes, k=0):
    """the graph / ontology has been used before: module-level helpers with both include_source values (in both orders),
    predicates that stop their traversal early, traversal iterators abandoned after one item.  State kept between calls
    (caches, shared buffers) then shows in whatever is observed afterwards.  Nothing here may change any answer."""
    import hpotk.algorithm as alg
    g = obj.graph if hasattr(obj, 'graph') else obj
    nodes = list(nodes)
    for j, t in enumerate(nodes):
        for inc in ((False, True) if (j + k) % 2 == 0 else (True, False)):
            try:
                set(alg.get_ancestors(obj, t, include_source=inc))
                set(alg.get_descendants(obj, t, include_source=inc))
                next(iter(g.get_ancestors(t, inc)), None)
                next(iter(g.get_descendants(t, inc)), None)
            except Exception:
                pass
        for u in nodes[:4]:
            try:
                g.is_descendant_of(t, u)
                g.is_ancestor_of(t, u)
            except Exception:
                pass


def observe_scale(case):
    """a graph far beyond what the model evaluates in reasonable time (more than 65 535 edges on a few hundred nodes):
    every query of every node compared with the closure computed here from the edge list - the property's own oracle"""
    import random
    rng = random.Random(case['seed'])
    n = case['n']
    ids = ['HP:%07d' % (i + 1) for i in range(n)]
    order = list(range(n))
    rng.shuffle(order)                         # a random topological order: edges go from later to earlier positions
    pos = {v: k for k, v in enumerate(order)}
    edges = [(a, b) for a in range(n) for b in range(n) if pos[a] > pos[b] and (pos[a] - pos[b] <= case['band'] or rng.random() < case['p'])]
    root = order[0]
    edges += [(a, root) for a in range(n) if a != root and not any(x == a for x, _ in edges)]
    rng.shuffle(edges)
    parents = {i: set() for i in range(n)}
    children = {i: set() for i in range(n)}
    for a, b in edges:
        parents[a].add(b)
        children[b].add(a)

    def closure(rel, s):
        seen, stack = set(), list(rel[s])
        while stack:
            x = stack.pop()
            if x not in seen:
                seen.add(x)
                stack.extend(rel[x])
        return seen
    g = FACTORIES[case['factory']]().create_graph([(TermId.from_curie(ids[a]), TermId.from_curie(ids[b])) for a, b in edges])
    bad = []
    probe = rng.sample(range(n), min(n, case.get('probes', 60))) + [order[-1], order[0]]
    for s in probe:
        t = TermId.from_curie(ids[s])
        for name, exp in (('get_parents', parents[s]), ('get_children', children[s]), ('get_ancestors', closure(parents, s)), ('get_descendants', closure(children, s))):
            got = [x.value for x in getattr(g, name)(t)]
            if sorted(got) != sorted(ids[x] for x in exp):
                bad.append([name, ids[s], len(got), len(exp)])
    return {'edges': len(edges), 'nodes': n, 'mismatches': bad[:10], 'n_mismatches': len(bad)}
