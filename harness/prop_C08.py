"""C08 - HPOA loading aggregates lines into per-disease, per-phenotype frequencies."""
import json
import re

import graphcorr as GC
from common import cstr, cbool, cz, clist, ctuple, cexn, log, run_coqc

ALLOW_PRIMITIVES = True
TRUSTED_BASE = [
    'kernel primitive floats (PrimFloat / Uint63) evaluate the binary64 arithmetic of _parse_frequency; Python round() is modelled as round-half-even on the exact binary value; '
    'the two range theorems are finite sweeps closed by vm_compute (cohort <= 100000 for the six terms, cohort <= 2000 for percentages 0, 0.5, .., 100)',
    'PARTIAL: beyond those cohort bounds the float behaviour is not proved',
    'the model works on parsed lines; the harness renders every case into a real HPOA file (both header styles) and parses the frequency column into the model\'s constructors; '
    'float(percentage) is handed to the model as an exact hex literal',
    'defaultdict grouping is modelled as first-occurrence keys x filter; sets as duplicate-free lists; results compared sorted',
]
ASSUMPTIONS = ['well-formed files: 12 tab-separated columns, non-empty biocuration column, ratios n/m with n <= m, CURIE ids with ":"']
THEOREM = 'C08_aggregation / C08_line_order_irrelevant / C08_frequency_term_in_range / C08_percentage_in_range / C08_term_frequency_within_bounds'

HEADER = '''From Coq Require Import String List ZArith.
From Coq Require Import PrimFloat.
From Hpotk Require Import Base.Result Base.Emit TermId.Model Graph.Model Corr.Graph Hpoa.Float Hpoa.Model Hpoa.Text Corr.C08.
Import ListNotations.
Open Scope string_scope.
Open Scope list_scope.
Definition ktable (tbl : list string) : list key := map (fun s => match from_curie s with Ok t => tkey t | Err _ => key0 end) tbl.
Definition kk (ks : list key) (i : nat) : key := nth i ks key0.'''

FREQ_TERMS = ['HP:0040285', 'HP:0040284', 'HP:0040283', 'HP:0040282', 'HP:0040281', 'HP:0040280']
NEW_HEADER = ['#description: "HPO annotations for rare diseases"', '#version: %s', '#tracker: https://x',
              'database_id\tdisease_name\tqualifier\thpo_id\treference\tevidence\tonset\tfrequency\tsex\tmodifier\taspect\tbiocuration']
OLD_HEADER = ['#description: HPO annotations', '#date: %s', '#tracker: https://x',
              '#DatabaseID\tDiseaseName\tQualifier\tHPO_ID\tReference\tEvidence\tOnset\tFrequency\tSex\tModifier\tAspect\tBiocuration']
ASPECT = {'P': 'AP', 'I': 'AI', 'C': 'AC', 'M': 'AM'}


def cfloat(x):
    h = float(x).hex()
    return f'({h})%float' if not h.startswith('-') else f'(-({h[1:]}))%float'


def cfreq(f):
    if f == '':
        return 'FEmpty'
    if re.match(r'^HP:\d{7}$', f):
        return f'(FTerm {FREQ_TERMS.index(f) if f in FREQ_TERMS else 6})'
    m = re.match(r'^(\d+)/(\d+)$', f)
    if m:
        return f'(FRatio {cz(int(m.group(1)))} {cz(int(m.group(2)))})'
    m = re.match(r'^(\d+\.?(\d+)?)%$', f)
    if m:
        return f'(FPercent {cfloat(float(m.group(1)))})'
    return 'FBad'


def render_text(case):
    hdr = NEW_HEADER if case['style'] == 'new' else OLD_HEADER
    rows = [h % case['version'] if '%s' in h else h for h in hdr]
    for ln in case['lines']:
        rows.append('\t'.join([ln['disease'], ln['name'], 'NOT' if ln['negated'] else '', ln['pheno'], ';'.join(ln['refs']), ln['evidence'], '',
                               ln['freq'], '', ';'.join(ln['mods']), ln['aspect'], 'HPO:x[2020-01-01]']))
    return '\n'.join(rows) + '\n'


def cobs(obs):
    if 'ok' in obs:
        ds = []
        for did, name, anns, moi in obs['ok']:
            ca = clist([ctuple([cstr(p), cz(n), cz(d), clist([cstr(r) for r in refs]), clist([cstr(m) for m in mods])]) for p, n, d, refs, mods in anns])
            ds.append(ctuple([cstr(did), cstr(name), ca, clist([cstr(m) for m in moi])]))
        return f'(Ok {clist(ds)})'
    return f'(Err {cexn(obs["err"])})'


def render_text_coq(case, obs):
    """the raw lines of the file (as Python iterates them) + the float() oracle for percentage literals"""
    text = case.get('raw') or render_text(case)
    # the file is opened in text mode with universal newlines: CRLF and CR arrive as LF
    lines = text.replace('\r\n', '\n').replace('\r', '\n').split('\n')
    lines = [l + '\n' for l in lines[:-1]] + ([lines[-1]] if lines[-1] else [])
    cvt = {}
    for ln in lines:
        f = ln.strip().split('\t')
        if len(f) > 7:
            m = re.match(r'^(\d+\.?(\d+)?)%$', f[7])
            if m:
                cvt[m.group(1)] = float(m.group(1))
    table = clist([ctuple([cstr(k), cfloat(v)]) for k, v in sorted(cvt.items())])
    ver = 'None' if obs.get('version') is None else f'(Some {cstr(obs["version"])})'
    return (f'(mkTCase {cz(case["cohort"])} {cbool(case["salvage"])} {table} {clist([cstr(l) for l in lines])} {cobs(obs)} {ver})')


def render_coq(case, obs):
    t = GC.Table()
    lines = []
    for ln in case['lines']:
        refs = clist([ctuple([t.k(r), cstr(ln['evidence'].upper())]) for r in ln['refs']])
        mods = clist([t.k(m) for m in ln['mods']])
        lines.append(f'(mkLine {cstr(ln["disease"])} {cstr(ln["name"])} {cbool(ln["negated"])} {t.k(ln["pheno"])} {refs} {cfreq(ln["freq"])} {mods} {ASPECT.get(ln["aspect"].upper(), "ANone")})')
    if 'ok' in obs:
        ds = []
        for did, name, anns, moi in obs['ok']:
            ca = clist([ctuple([cstr(p), cz(n), cz(d), clist([cstr(r) for r in refs]), clist([cstr(m) for m in mods])]) for p, n, d, refs, mods in anns])
            ds.append(ctuple([cstr(did), cstr(name), ca, clist([cstr(m) for m in moi])]))
        o = f'(Ok {clist(ds)})'
    else:
        o = f'(Err {cexn(obs["err"])})'
    tbl = clist([cstr(x) for x in t.items])
    return (f'(let tbl := {tbl} in let ks := ktable tbl in let s := tb tbl in let k := kk ks in '
            f'mkHCase {cz(case["cohort"])} {cbool(case["salvage"])} {clist(lines)} {o})')


def evaluate(chk, cases, tag='cases', shard=120):
    payload = [dict(c, text=c.get('raw') or render_text(c)) for c in cases]
    r = chk.run_impl('C08', {'cases': payload, 'workdir': str(chk.work)})
    obs = r['cases']
    bad = [i for i, o in enumerate(obs) if 'crash' in o]
    live = [i for i in range(len(cases)) if i not in set(bad)]
    structured = [i for i in live if 'raw' not in cases[i]]
    terms = {i: render_coq(cases[i], obs[i]) for i in structured}
    failing = {structured[j]: ['loaded diseases differ from the (line-level) model']
               for j in chk.coq_failing(HEADER, [terms[i] for i in structured], 'check_hpoa_case', shard=shard, tag=tag)}
    tterms = {i: render_text_coq(cases[i], obs[i]) for i in live}
    for j in chk.coq_failing(HEADER, [tterms[i] for i in live], 'check_hpoa_text_case', shard=shard, tag=tag + '_text'):
        failing.setdefault(live[j], []).append('loaded diseases / version differ from the text-level model (header scan, line splitting, frequency classification)')
    for i in live:
        terms.setdefault(i, tterms[i])
    for i in bad:
        failing[i] = ['observer crashed: ' + obs[i]['crash']]
    for i in live:
        o = obs[i]
        p = list(o.get('direct', []))
        if 'ok' in o and 'raw' not in cases[i] and o.get('version') != cases[i]['version']:
            p.append(f'version {o.get("version")!r} != {cases[i]["version"]!r}')
        if p:
            failing.setdefault(i, [])
            failing[i] += p
    return terms, obs, failing, r['freq_table']


PH = ['HP:%07d' % i for i in range(100, 112)]
MOI = ['HP:0000006', 'HP:0000007', 'HP:0001417']
MODS = ['HP:0012828', 'HP:0003577', 'HP:0025303']
REFS = ['PMID:1', 'PMID:22', 'OMIM:100000', 'PMID:333', 'ORPHA:7']


def gen_case(rng, variant):
    nd = rng.randint(1, 6)
    diseases = [('OMIM:%06d' % (100000 + 7 * j), 'Disease %d%s' % (j, ' é' if rng.random() < 0.15 else '')) for j in range(nd)]
    cohort = rng.choice([1, 5, 10, 50, 73, 50, 200])
    lines = []
    for did, name in diseases:
        for _ in range(rng.randint(1, 7)):
            aspect = rng.choice(['P', 'P', 'P', 'P', 'I', 'C', 'M', 'p'])
            if aspect.upper() == 'I':
                pheno = rng.choice(MOI)
            else:
                pheno = rng.choice(PH[:4] if rng.random() < 0.6 else PH)
            kind = rng.choice(['empty', 'ratio', 'ratio', 'term', 'term', 'percent'])
            neg = rng.random() < 0.25
            if kind == 'empty':
                f = ''
            elif kind == 'ratio':
                m = rng.randint(1, 30)
                f = '%d/%d' % (rng.randint(0, m), m)
                if neg and rng.random() < 0.15:
                    f = '0/0'
            elif kind == 'term':
                f = rng.choice(FREQ_TERMS)
            else:
                f = rng.choice(['0%', '100%', '50%', '12.5%', '33%', '7.5%', '99.5%', '2%', '25.0%', '66.5%'])
            lines.append({'disease': did, 'name': name, 'negated': neg, 'pheno': pheno, 'refs': rng.sample(REFS, rng.randint(1, 3)),
                          'evidence': rng.choice(['PCS', 'IEA', 'TAS', 'pcs']), 'freq': f, 'mods': rng.sample(MODS, rng.choice([0, 0, 1, 2])), 'aspect': aspect})
    rng.shuffle(lines)
    if variant == 'grouped':
        lines.sort(key=lambda l: l['disease'])
    return {'style': rng.choice(['new', 'old']), 'version': rng.choice(['2024-04-26', '2021-08-02']), 'cohort': cohort,
            'salvage': rng.random() < 0.5, 'lines': lines}


COLS = 'database_id\tdisease_name\tqualifier\thpo_id\treference\tevidence\tonset\tfrequency\tsex\tmodifier\taspect\tbiocuration'


def raw_cases(rng, n):
    """files written by hand at text level: odd headers, versions, separators, malformed lines"""
    def row(**k):
        d = {'d': 'OMIM:100000', 'n': 'Disease', 'q': '', 'p': 'HP:0000100', 'r': 'PMID:1', 'e': 'PCS', 'f': '', 'm': '', 'a': 'P', 'b': 'HPO:x[2020-01-01]'}
        d.update(k)
        return '\t'.join([d['d'], d['n'], d['q'], d['p'], d['r'], d['e'], '', d['f'], '', d['m'], d['a'], d['b']])
    out = []
    fixed = [
        ['#version: 2024-04-26', COLS, row(f='1/2'), row(f='3/8')],
        ['#date: 2021-08-02', '#version: 2024-04-26', COLS, row()],
        ['#version: 2024-04-26 ', COLS, row()],                                   # trailing blank: no version
        ['#version:2024-04-26', '#Version: 2024-01-01', COLS, row()],
        ['# a comment', 'some text before the header', '#version: v1', COLS, row(q='not', f='2/10'), row(q='NoT')],
        [COLS, '#version: too-late', row(a='i', p='HP:0000006')],
        ['#DatabaseID\tDiseaseName', row(f='12.5%'), row(f='5%', p='HP:0000101'), row(f='100%', p='HP:0000102')],
        ['#description: no column header at all', row()],
        [COLS, row(r='PMID:1;;PMID:2; ;PMID:1', m='HP:0012828;')],
        [COLS, row(r=' PMID:1')],                                                 # a CURIE with a leading blank is still a CURIE
        [COLS, row(r='nocurie')],                                                 # ValueError
        [COLS, row(f='abc')], [COLS, row(f='1/2/3')], [COLS, row(f='12.%')], [COLS, row(f='.5%')], [COLS, row(f='HP:0000001')], [COLS, row(f='HP:004028')],
        [COLS, 'OMIM:1\tshort line'],                                             # IndexError
        [COLS, ''],                                                               # blank data line: IndexError
        [COLS, row(b='')],                                                        # empty last column is stripped away: IndexError
        [COLS, row() + '\t'], [COLS, '  ' + row(f='1/4') + '  '],
        [COLS, row(e='xyz'), row(e='tas', p='HP:0000101')],
        [COLS, row(a='X'), row(a='', p='HP:0000101'), row(a='M', p='HP:0000102'), row(a='C', p='HP:0000103')],
        [COLS, row(f='0/0', q='NOT'), row(f='0/5', q='NOT', p='HP:0000101'), row(f='2/5', q='NOT', p='HP:0000102')],
        [COLS, row(n='Name A'), row(n='Name B')],
        ['#version: 2024-04-26', COLS],
        [],
    ]
    for rows in fixed:
        for cohort, salvage, nl in ((50, False, '\n'), (10, True, '\n'), (50, False, '\r\n')):
            text = nl.join(rows) + (nl if rows else '')
            out.append({'raw': text, 'cohort': cohort, 'salvage': salvage, 'style': 'raw', 'version': None, 'lines': []})
    freqs = ['', '1/2', '0/3', '7/7', 'HP:0040280', 'HP:0040283', '25%', '12.5%', '0%', '3/2x', '%', '1/', 'HP:0040280 ', '50 %']
    for _ in range(n):
        rows = ['#version: ' + rng.choice(['2024-04-26', 'v1_2-3', '2024 04', ''])] if rng.random() < 0.7 else []
        rows.append(rng.choice([COLS, COLS, '#DatabaseID\tx', 'database_id']))
        for _ in range(rng.randint(0, 5)):
            rows.append(row(d=rng.choice(['OMIM:100000', 'OMIM:200000']), q=rng.choice(['', '', 'NOT', 'not']), p=rng.choice(PH[:3]),
                            f=rng.choice(freqs), a=rng.choice(['P', 'P', 'I', 'p', 'M']), r=rng.choice(['PMID:1', 'PMID:1;PMID:2', 'PMID:2;', ';PMID:3']),
                            m=rng.choice(['', 'HP:0012828', 'HP:0012828;HP:0003577'])))
        out.append({'raw': '\n'.join(rows) + '\n', 'cohort': rng.choice([1, 10, 50]), 'salvage': rng.random() < 0.5, 'style': 'raw', 'version': None, 'lines': []})
    return out


def run(chk):
    rng = chk.rng
    cases = GC.load_corpus('C08')
    n = 300 if chk.tier == 'quick' else 3000
    for i in range(n):
        c = gen_case(rng, 'grouped' if i % 2 else 'shuffled')
        cases.append(c)
        c2 = dict(c, lines=list(c['lines']))
        rng.shuffle(c2['lines'])
        c2['shuffle_of'] = len(cases) - 1
        cases.append(c2)
    cases += raw_cases(rng, 120 if chk.tier == 'quick' else 800)
    # one present line per frequency term and cohort size: every term must land inside its range
    for cohort in (1, 5, 10, 50, 73, 1000):
        lines = [{'disease': 'OMIM:100000', 'name': 'd', 'negated': False, 'pheno': PH[j], 'refs': ['PMID:1'], 'evidence': 'PCS', 'freq': ft, 'mods': [], 'aspect': 'P'}
                 for j, ft in enumerate(FREQ_TERMS)]
        cases.append({'style': 'new', 'version': '2024-04-26', 'cohort': cohort, 'salvage': False, 'lines': lines})
    for c in cases:
        chk.count('header:' + c['style'])
        chk.count('cohort:%d' % c['cohort'])
        chk.count('salvage:%s' % c['salvage'])
        for ln in c['lines']:
            f = ln['freq']
            chk.count('freq:' + ('empty' if f == '' else 'term' if f.startswith('HP:') else 'ratio' if '/' in f else 'percent') + (':negated' if ln['negated'] else ''))
            chk.count('aspect:' + ln['aspect'].upper())
        chk.note_case(c, nontrivial=len(c['lines']) >= 2, sample_every=150)
    terms, obs, failing, ftab = evaluate(chk, cases)
    # shuffled copies must load to the same result (compared through the model AND directly)
    for i, c in enumerate(cases):
        j = c.get('shuffle_of')
        if j is not None and 'ok' in obs[i] and obs[i].get('ok') != obs[j].get('ok'):
            failing.setdefault(i, []).append('result differs from the result for the same lines in another order')
    # the live frequency table, bit for bit
    ft = clist(['(' + ', '.join(f'({x})%float' for x in row) + ')' for row in ftab])
    fr = run_check_table(chk, ft)
    chk.evaluations = len(cases) + 1
    chk.traces = len(cases)
    chk.extra['frequency_table'] = ftab
    chk.rule = ('generated HPOA files in both header styles: 1-6 diseases, repeated phenotype lines, aspects P/I/C/M (also lower case), frequency empty / n/m / each of the six HPO '
                'frequency terms on present and negated lines / percentages, NOT with and without salvage incl. 0/0, cohort sizes {1,5,10,50,73,200,1000}, 1-3 references, '
                '0-2 modifiers; each file also with its data lines shuffled; per disease the sorted (phenotype, numerator, denominator, references, modifiers) and the modes of '
                'inheritance WITH their Python type are compared with the model; is_present, frequency(), 0 <= n <= d and the version are checked on the implementation; '
                'HPO_FREQUENCIES (bounds and .frequency) is compared bit for bit with the model table; EVERY file is also fed to the text-level model as raw lines (header scan, TAB / ; splitting, '
                'NOT, evidence, aspect, frequency-column classification), plus hand-written odd files: both header styles, version lines with blanks, text before the header, CRLF, short / blank '
                'lines (IndexError), bad CURIEs and frequencies (ValueError), empty last column')
    if not fr:
        chk.report_violation('C08:frequency-table', {'frequency_table': ftab, 'theorem': 'C08_term_frequency_within_bounds',
                                                     'explanation': 'HpoFrequency.frequency of the live module is not (lower + upper) / 2'},
                             what='C08:frequency-table: HPO_FREQUENCIES (lower, upper, frequency) = ' + json.dumps([[float.fromhex(x) for x in r] for r in ftab]))
    if failing:
        report(chk, cases, obs, failing)


def run_check_table(chk, ft):
    f = chk.work / 'freq_table.v'
    f.write_text(HEADER + f'\nEval vm_compute in (check_freq_table {ft}).\n')
    r = run_coqc(f, timeout=120, cwd=chk.work)
    return '= true' in r.stdout


def shrink(chk, case):
    if 'raw' in case:
        return case
    cur = case
    for _ in range(40):
        ls = cur['lines']
        cands = [dict(cur, lines=ls[:i] + ls[i + 1:]) for i in range(len(ls)) if len(ls) > 1]
        if not cands:
            break
        _, _, f, _ = evaluate(chk, cands, tag='shrink')
        if not f:
            break
        cur = cands[sorted(f)[0]]
    cur = {k: v for k, v in cur.items() if k != 'shuffle_of'}
    return cur


def model_answer(chk, term):
    f = chk.work / 'model_answer.v'
    f.write_text(HEADER + f'\nEval vm_compute in (hpoa_model_answer {term}).\n')
    r = run_coqc(f, timeout=120, cwd=chk.work)
    return (r.stdout + r.stderr)[-2500:]


def sig_of(case, obs):
    if 'raw' in case:
        return 'C08:text-level'
    fs = [l['freq'] for l in case['lines']]
    if any(o for o in obs.get('ok', []) if any(str(m).startswith('str:') for m in o[3])):
        return 'C08:modes-of-inheritance-type'
    if any(f.startswith('HP:') for f in fs):
        return 'C08:frequency-term'
    if any(f.endswith('%') for f in fs):
        return 'C08:percentage'
    return 'C08:aggregation'


def report(chk, cases, obs, failing, limit=4, examine=10):
    """one shrunk replay per signature; at most `examine` shrink runs, starting from the smallest failing cases"""
    seen = {}
    budget = examine
    for i in sorted(failing, key=lambda j: len(json.dumps(cases[j]))):
        pre = sig_of(cases[i], obs[i])
        if len(seen) >= limit or budget <= 0:
            break
        if pre in seen and seen[pre] >= 2:
            continue
        seen[pre] = seen.get(pre, 0) + 1
        budget -= 1
        if 'shuffle_of' in cases[i] and failing[i] == ['result differs from the result for the same lines in another order']:
            small = cases[i]
        else:
            small = shrink(chk, cases[i])
        terms, o, f, _ = evaluate(chk, [small], tag='final')
        sig = sig_of(small, o[0])
        if sig in seen and sig != pre:
            continue
        seen[sig] = seen.get(sig, 0) + 2
        chk.report_violation(sig, {'case': small, 'file': small.get('raw') or render_text(small), 'impl': o[0], 'model': model_answer(chk, terms[0]) if 0 in terms else 'n/a',
                                   'problems': f.get(0, failing[i])[:5], 'theorem': THEOREM, 'failing_cases_total': len(failing)},
                             what=f'{sig}: {f.get(0, failing[i])[0]} | cohort={small["cohort"]} salvage={small["salvage"]} lines={json.dumps(small["lines"])}'[:900])


def replay(chk, path):
    rp = json.loads(open(path).read())
    cases = rp['cases'] if 'cases' in rp else [rp['case']]
    for case in cases:
        terms, obs, f, _ = evaluate(chk, [case], tag='replay')
        chk.note_case(case)
        log('impl now :', json.dumps(obs[0])[:1500])
        log('model    :', model_answer(chk, terms[0]) if 0 in terms else 'n/a')
        log('problems :', f.get(0, []))
        if f:
            chk.report_violation(rp.get('signature', 'C08:replay'), {'case': case, 'impl': obs[0], 'problems': f[0]}, what='replayed case still fails')
