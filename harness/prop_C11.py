"""C11 - validators report exactly the rule violations and never alter their input."""
import itertools
import json

import gen_graph as G
import graphcorr as GC
from common import cstr, cbool, clist, ctuple, cexn, log, run_coqc

TRUSTED_BASE = [
    'findings are compared as the sorted multiset of (level/category -> kind, CURIEs named in the message, state word); message wording is parsed by the harness',
    'item forms (TermId, Identified with bool attribute / method / no status) are reduced to (id, is_present) by the harness exactly as map_to_stateful_feature documents',
    'non-mutation is CHECKED on the implementation (snapshot of every caller item and its identifier object before/after), not proved',
    'graph = proved C01 model; id map = proved C06 model',
]
ASSUMPTIONS = ['items carry ids the ontology knows (primary or alternate ids of current terms); every current term is a node of the graph',
               'ids are ASCII word characters after the prefix (the harness extracts CURIEs from messages with a regex)']
THEOREM = 'C11_annotation_propagation(+_multiplicity) / C11_phenotypic_abnormality / C11_obsolete_ids / C11_obsolete_means_alternate / C11_runner'

HEADER = '''From Coq Require Import String List ZArith.
From Hpotk Require Import Base.Result Base.Emit TermId.Model Graph.Model Corr.Graph Ontology.Model Validate.Model Corr.C11.
Import ListNotations.
Open Scope string_scope.
Open Scope list_scope.
Definition ktable (tbl : list string) : list key := map (fun s => match from_curie s with Ok t => tkey t | Err _ => key0 end) tbl.
Definition kk (ks : list key) (i : nat) : key := nth i ks key0.'''
VK = {'P': 'VProp', 'A': 'VPa', 'O': 'VObs'}


def eff_present(spec):
    curie, present, form = spec
    return True if form in ('tid', 'plain') else present


def render_case(case, obs):
    t = GC.Table()
    edges = clist([ctuple([t.s(a), t.s(b)]) for a, b in case['edges']])
    terms = clist([f'(mkTerm unit {t.k(tid)} "n" {clist([t.k(a) for a in alts])} {cbool(ob)} tt)' for tid, alts, ob in case['terms']])
    runs = []
    for run, o in zip(case['runs'], obs['runs']):
        items = clist([ctuple([t.k(s[0]), cbool(eff_present(s))]) for s in run['items']])
        found = ('(Ok ' + clist([cstr(x) for x in o['ok']]) + ')') if 'ok' in o else f'(Err {cexn(o["err"])})'
        runs.append(f'(mkVRun {clist([VK[v] for v in run["validators"]])} {items} {found} {cbool(o.get("is_ok", False))})')
    tbl = clist([cstr(x) for x in t.items])
    return (f'(let tbl := {tbl} in let ks := ktable tbl in let s := tb tbl in let k := kk ks in '
            f'mkVCase {GC.FACT[case["factory"]]} {edges} {terms} {clist(runs)})')


def evaluate(chk, cases, tag='cases', shard=60):
    obs = chk.run_impl('C11', {'cases': cases})['cases']
    bad = [i for i, o in enumerate(obs) if 'crash' in o]
    live = [i for i in range(len(cases)) if i not in set(bad)]
    terms = {i: render_case(cases[i], obs[i]) for i in live}
    failing = [live[j] for j in chk.coq_failing(HEADER, [terms[i] for i in live], 'check_vcase', shard=shard, tag=tag)]
    direct = [i for i in live if any(r.get('mutated') or r.get('concat_ok') is False for r in obs[i]['runs'])]
    return terms, obs, sorted(set(failing) | set(bad)), direct


PLAIN = ['HP:%07d' % i for i in range(1, 60)]
ALTS = ['HP:%07d' % i for i in range(900, 990)]


def gen_case(rng, small):
    """an HPO-like DAG: root HP:0000001 with children incl. HP:0000118 (Phenotypic abnormality) and other branches"""
    n = rng.randint(4, 7) if small else rng.randint(6, 16)
    ids = ['HP:0000001', 'HP:0000118'] + rng.sample([p for p in PLAIN if p not in ('HP:0000001', 'HP:0000118')], n)
    edges = [('HP:0000118', 'HP:0000001')]
    for i in range(2, len(ids)):
        k = 1 if rng.random() < 0.55 else 2 if rng.random() < 0.8 else 3
        # mostly below PA, sometimes in a sibling branch of the root
        cands = [j for j in range(0, i) if j != 1 or True]
        ps = rng.sample(cands, min(k, len(cands)))
        if rng.random() < 0.7 and 1 not in ps and 0 in ps:
            ps = [1 if p == 0 else p for p in ps]
        edges += [(ids[i], ids[p]) for p in set(ps)]
    if rng.random() < 0.08:
        # an ontology without Phenotypic abnormality at all
        edges = [(a, b) for a, b in edges if 'HP:0000118' not in (a, b)] or [(ids[2], 'HP:0000001')]
        for i in range(3, len(ids)):
            if not any(a == ids[i] for a, b in edges):
                edges.append((ids[i], 'HP:0000001'))
    edges = list(dict.fromkeys(edges))
    rng.shuffle(edges)
    nodes = sorted({x for e in edges for x in e})
    alts = iter(rng.sample(ALTS, 40))
    terms, alt_of = [], {}
    for x in nodes:
        a = [next(alts) for _ in range(rng.choice([0, 0, 1, 2]))]
        terms.append([x, a, False])
        for y in a:
            alt_of[y] = x
    # an obsolete term record (its id is an alternate id of a current term)
    if alt_of and rng.random() < 0.5:
        y = rng.choice(sorted(alt_of))
        terms.append([y, [], True])
    usable = nodes + sorted(alt_of)
    runs = []
    for _ in range(6 if small else 10):
        m = rng.randint(0, 6)
        items = []
        for _ in range(m):
            x = rng.choice(usable) if rng.random() < 0.8 or not items else rng.choice(items)[0]
            form = rng.choice(['tid', 'plain', 'attr', 'method', 'attr', 'method'])
            items.append([x, rng.random() < 0.5, form])
        r = rng.random()
        if r < 0.45:
            vs, direct = [rng.choice('PAO')], True
        else:
            k = rng.randint(0, 3)
            vs, direct = [rng.choice('PAO') for _ in range(k)] if rng.random() < 0.3 else list(rng.sample('PAO', k)), False
        runs.append({'validators': vs, 'items': items, 'direct': direct, 'tuple': rng.random() < 0.3})
    return {'factory': rng.choice(['idx', 'inc', 'bld']), 'edges': [list(e) for e in edges], 'terms': terms, 'runs': runs}


def exhaustive_cases():
    """fixed 6-node ontology: all item pairs/triples over 4 terms x {present, excluded} x primary/alternate id"""
    edges = [['HP:0000118', 'HP:0000001'], ['HP:0000002', 'HP:0000118'], ['HP:0000003', 'HP:0000002'], ['HP:0000004', 'HP:0000118'],
             ['HP:0000003', 'HP:0000004'], ['HP:0000005', 'HP:0000001']]
    terms = [['HP:0000001', [], False], ['HP:0000118', ['HP:0000900'], False], ['HP:0000002', ['HP:0000902'], False],
             ['HP:0000003', ['HP:0000903', 'HP:0000913'], False], ['HP:0000004', [], False], ['HP:0000005', ['HP:0000905'], False]]
    ids = ['HP:0000002', 'HP:0000003', 'HP:0000903', 'HP:0000118', 'HP:0000005', 'HP:0000001']
    atoms = [[x, p, 'attr'] for x in ids for p in (True, False)]
    runs = []
    for k in (1, 2):
        for combo in itertools.product(atoms, repeat=k):
            runs.append({'validators': ['P', 'A', 'O'], 'items': [list(c) for c in combo], 'direct': False})
    for combo in itertools.combinations(atoms, 3):
        runs.append({'validators': ['P'], 'items': [list(c) for c in combo], 'direct': True})
    cases = []
    for i in range(0, len(runs), 40):
        cases.append({'factory': ['idx', 'inc', 'bld'][(i // 40) % 3], 'edges': edges, 'terms': terms, 'runs': runs[i:i + 40], 'exh': True})
    return cases, len(runs)


def run(chk):
    rng = chk.rng
    cases = GC.load_corpus('C11')
    exh, nexh = exhaustive_cases()
    cases += exh
    for i in range(250 if chk.tier == 'quick' else 2500):
        cases.append(gen_case(rng, small=i % 2 == 0))
    for c in cases:
        for r in c['runs']:
            chk.count('validators:' + (''.join(r['validators']) or '-'))
            chk.count('items:%d' % len(r['items']))
            for it in r['items']:
                chk.count('form:' + it[2])
        chk.note_case({'edges': c['edges'], 'terms': c['terms'], 'runs': c['runs'][:3]}, nontrivial=True, sample_every=100)
    terms, obs, failing, direct = evaluate(chk, cases)
    chk.evaluations = sum(len(c['runs']) for c in cases)
    chk.traces = len(cases)
    chk.extra['exhaustive_runs'] = nexh
    chk.exhaustive = True
    chk.rule = ('exhaustive on a fixed 6-term ontology with alternate ids: all item sequences of length 1 and 2 and all 3-subsets over 6 ids (primary and alternate, inside / '
                'outside / equal to Phenotypic abnormality, the root) x {present, excluded} through all three validators; random HPO-like multi-parent DAGs (incl. ontologies '
                'without HP:0000118) with alternate ids and obsolete records, item sequences of length 0-6 with repeats mixing TermId / Identified with bool attribute / '
                'method / no status, every validator alone and random runner combinations (incl. empty and repeated validators), list and tuple inputs; findings compared '
                'as sorted multisets with the model, is_ok compared, runner = per-validator concatenation and non-mutation checked on the implementation')
    if failing or direct:
        report(chk, cases, obs, failing, direct)


def shrink(chk, case):
    cur = case
    # one run
    for k in range(len(cur['runs'])):
        c1 = dict(cur, runs=[cur['runs'][k]])
        _, _, f, d = evaluate(chk, [c1], tag='shrink')
        if f or d:
            cur = c1
            break
    for _ in range(10):
        its = cur['runs'][0]['items']
        cands = [dict(cur, runs=[dict(cur['runs'][0], items=its[:i] + its[i + 1:])]) for i in range(len(its))]
        if not cands:
            break
        _, _, f, d = evaluate(chk, cands, tag='shrink')
        bad = sorted(set(f) | set(d))
        if not bad:
            break
        cur = cands[bad[0]]
    return cur


def model_answer(chk, term):
    f = chk.work / 'model_answer.v'
    f.write_text(HEADER + f'\nEval vm_compute in (vmodel_answers {term}).\n')
    r = run_coqc(f, timeout=120, cwd=chk.work)
    return (r.stdout + r.stderr)[-2500:]


def report(chk, cases, obs, failing, direct, limit=3):
    seen = {}
    todo = sorted(set(failing) | set(direct), key=lambda i: len(json.dumps(cases[i])))
    for i in todo[:8]:
        small = shrink(chk, cases[i])
        terms, o, f, d = evaluate(chk, [small], tag='final')
        r0 = o[0]['runs'][0] if 'runs' in o[0] else {}
        what = 'mutation' if r0.get('mutated') else 'runner-concat' if r0.get('concat_ok') is False else 'findings'
        sig = 'C11:%s:%s' % (what, ''.join(small['runs'][0]['validators']))
        if sig in seen or len(seen) >= limit:
            continue
        seen[sig] = 1
        chk.report_violation(sig, {'case': small, 'impl': o[0], 'model': model_answer(chk, terms[0]) if 0 in terms else 'n/a', 'theorem': THEOREM,
                                   'failing_cases_total': len(todo)},
                             what=f'{sig}: edges={json.dumps(small["edges"])} terms={json.dumps(small["terms"])} run={json.dumps(small["runs"][0])}'[:900])


def replay(chk, path):
    rp = json.loads(open(path).read())
    cases = rp['cases'] if 'cases' in rp else [rp['case']]
    for case in cases:
        terms, obs, f, d = evaluate(chk, [case], tag='replay')
        chk.note_case(case)
        log('impl now :', json.dumps(obs[0])[:2000])
        log('model    :', model_answer(chk, terms[0]) if 0 in terms else 'n/a')
        log('agree    :', not f and not d)
        if f or d:
            chk.report_violation(rp.get('signature', 'C11:replay'), {'case': case, 'impl': obs[0]}, what='replayed case still fails')
