"""Observation of hpotk.algorithm traversal / augment helpers (C18)."""
import warnings

warnings.simplefilter('ignore')

import hpotk  # noqa: E402
from hpotk.model import TermId, MinimalTerm  # noqa: E402
from hpotk.graph import GraphAware  # noqa: E402
from hpotk.algorithm import get_ancestors, get_descendants, get_parents, get_children, exists_path  # noqa: E402
from hpotk.algorithm._augment import augment_with_ancestors, augment_with_descendants  # noqa: E402
from hpotk.ontology import create_minimal_ontology  # noqa: E402

from impl_graph import FACTORIES, exn_name  # noqa: E402

HELPER = {'P': get_parents, 'C': get_children, 'A': get_ancestors, 'D': get_descendants}
AUGMENT = {'A': augment_with_ancestors, 'D': augment_with_descendants}
OTHERS = {'none': None, 'int': 5, 'float': 3.5, 'bytes': b'HP:1', 'dict': {'a': 1}, 'obj': object()}


class Aware(GraphAware):
    def __init__(self, g):
        self._g = g

    @property
    def graph(self):
        return self._g


def wrappers(g):
    terms = [MinimalTerm.create_minimal_term(t, 'n', [], False) for t in g]
    return {'graph': g, 'aware': Aware(g), 'onto': create_minimal_ontology(g, terms, 'v'),
            'none': None, 'str': 'graph', 'int': 7}


def mksrc(spec):
    kind, v = spec
    if kind == 'str':
        return v
    if kind == 'tid':
        return TermId.from_curie(v)
    if kind == 'utid':
        from impl_graph import user_tid
        return user_tid(v)
    return OTHERS[v]


def mkasrc(spec):
    kind = spec[0]
    if kind == 'one':
        return TermId.from_curie(spec[1])
    if kind == 'many':
        items = [mksrc(s) for s in spec[1]]
        cont = spec[2]
        if cont == 'list':
            return items
        if cont == 'tuple':
            return tuple(items)
        if cont == 'set':
            return set(items)
        if cont == 'frozenset':
            return frozenset(items)
        raise AssertionError(cont)
    return OTHERS[spec[1]]


def vals(it):
    assert isinstance(it, frozenset), type(it)
    return sorted(t.value for t in it)


def do_call(w, c):
    k = c[0]
    if k == 'helper':
        return vals(HELPER[c[1]](w[c[2]], mksrc(c[3]), c[4]))
    if k == 'path':
        r = exists_path(w[c[1]], mksrc(c[2]), mksrc(c[3]))
        assert isinstance(r, bool)
        return r
    if k == 'augment':
        return vals(AUGMENT[c[1]](w[c[2]], mkasrc(c[3]), c[4]))
    raise AssertionError(k)


def observe_case(case):
    edges = [(TermId.from_curie(s), TermId.from_curie(o)) for s, o in case['edges']]
    g = FACTORIES[case['factory']]().create_graph(edges)
    w = wrappers(g)
    out = []
    for c in case['calls']:
        try:
            out.append({'ok': do_call(w, c)})
        except Exception as e:
            out.append({'err': exn_name(e)})
    return {'results': out}


def observe(payload):
    res = []
    for case in payload['cases']:
        try:
            res.append(observe_case(case))
        except Exception as e:
            res.append({'crash': exn_name(e) + ': ' + str(e)[:300]})
    return {'cases': res}
