"""Observation of the ontology containers (C06)."""
import warnings

warnings.simplefilter('ignore')

from hpotk.model import TermId, MinimalTerm, Term  # noqa: E402
from hpotk.ontology import create_minimal_ontology, create_ontology  # noqa: E402
from hpotk.graph import CsrIndexedGraphFactory  # noqa: E402

from impl_graph import exn_name, mkarg  # noqa: E402


BUILDS = [0]


def build(case):
    g = CsrIndexedGraphFactory().create_graph([(TermId.from_curie('HP:2'), TermId.from_curie('HP:1'))])
    terms = []
    for tid, name, alts, obsolete in case['terms']:
        if case['kind'] == 'minimal':
            terms.append(MinimalTerm.create_minimal_term(tid, name, alts, obsolete))
        else:
            terms.append(Term.create_term(tid, name, alts, obsolete, None, None, None, None))
    # the ontology gets its own sequence object (a list or a tuple, by turns); a list is edited by the caller right after the
    # ontology was created - another term appended, the first one removed: the ontology must keep what it was created from
    BUILDS[0] += 1
    given = list(terms) if BUILDS[0] % 3 else tuple(terms)
    o = create_minimal_ontology(g, given, 'v1') if case['kind'] == 'minimal' else create_ontology(g, given, 'v1')
    if isinstance(given, list):
        mk = MinimalTerm.create_minimal_term if case['kind'] == 'minimal' else (lambda *a: Term.create_term(*a, None, None, None, None))
        given.append(mk('ZZZ:99999', 'added by the caller afterwards', ['ZZZ:99998'], False))
        if len(given) > 1:
            del given[0]
    return terms, o


def do_call(terms, o, c):
    k = c[0]
    if k == 'len':
        return len(o)
    if k == 'terms':
        return [idx_of(terms, t) for t in o.terms]
    if k == 'term_ids':
        return sorted(t.value for t in o.term_ids)
    if k == 'get':
        t = o.get_term(mkarg(c[1]))
        return None if t is None else idx_of(terms, t)
    if k == 'name':
        return o.get_term_name(mkarg(c[1]))
    if k == 'in':
        r = mkarg(c[1]) in o
        assert isinstance(r, bool)
        return r
    raise AssertionError(k)


def idx_of(terms, t):
    for i, u in enumerate(terms):
        if u is t:
            return i
    raise AssertionError('ontology returned a term object that was not given to it')


def observe(payload):
    res = []
    for case in payload['cases']:
        try:
            terms, o = build(case)
            out = []
            for c in case['calls']:
                try:
                    out.append({'ok': do_call(terms, o, c)})
                except Exception as e:
                    out.append({'err': exn_name(e)})
            res.append({'results': out})
        except Exception as e:
            res.append({'crash': exn_name(e) + ': ' + str(e)[:300]})
    return {'cases': res}
